"""C31 - Content-Encoding round trip; the codec cache is transparent.

Engine X: breadth-first search over operation sequences on the real
`mitmproxy.net.encoding.encode/decode` (with its module-level single-entry cache) and the real
`Message.set_content/get_content/decode/encode` of two message objects.  State = cache entry
+ (raw body, header fields) of both messages.  Every operation of the alphabet is applied in
every distinct state; its result is judged against a *stateless* reference built directly on
gzip/zlib/brotli/zstd, and compared with the result the same operation gives on the same
message with a pristine cache (history independence).
"""
from __future__ import annotations

import functools
import gzip
import sys
import zlib

import brotli

if sys.version_info >= (3, 14):
    from compression import zstd
else:
    from backports import zstd

from mitmproxy import http
from mitmproxy.net import encoding as enc_mod

from vmc import explore
from vmc.tally import HarnessError, Tally

META = {
    "level": "model_checking",
    "technique": "explicit-state BFS over encode/decode/assign/read/decode()/encode() histories on the real codec module "
                 "(shared cache) and two real Message objects, against a stateless reference built on gzip/zlib/brotli/zstd "
                 "and against the same operation run with a pristine cache",
    "claim": "within the depth bound every operation gives, in every reachable (cache, message, message) state, the result "
             "the stateless reference prescribes and the result it gives with an empty cache; model_checking because the "
             "property quantifies over histories of a shared mutable cache",
    "rule": "a case is an operation history reaching a distinct state (cache entry, raw body and header fields of both "
            "messages); non-trivial = the state holds a populated cache entry or a message with a content coding",
    "assumptions": [
        "bodies {empty, 'a', 'abc'*20, 00 ff}; codings {header absent, header present with empty value, identity, none, gzip, deflate, br, zstd, GZip, unknown foo, "
        "text codec utf8}; an empty Content-Encoding value lists no coding and is read as identity; "
        "compressed inputs from independent encoders at other levels, truncated streams, the byte 'x', the empty string, "
        "a zlib stream labelled gzip, a raw deflate stream and a gzip stream labelled deflate",
        "the reference decoders are the library entry points gzip.decompress / zlib.decompress (zlib or raw deflate) / "
        "brotli.decompress / zstd.decompress; the compression libraries themselves are trusted",
        "for *input* the reference rejects (incl. zero bytes under deflate/br/zstd) and for unknown codings the statement fixes "
        "no result: only history independence (and Content-Length) is judged there; multi-member gzip and trailing garbage are "
        "outside the alphabet",
        "encoded *output* for empty content is judged like any other: a fresh encode yields a real stream for gzip, deflate, br "
        "and zstd on the unchanged tree. Zero bytes are accepted as the encoding of empty content in one situation only, the one "
        "in which the unchanged tree emits them (all four codings): an empty raw body was decoded before, the cache holds "
        "(b'', coding) -> b'' and the operation's encode call hits that entry (counted as guard_zero_bytes_... in the evidence)",
        "byte identity of encoded output across histories is not required (the cache may hand back the original encoded "
        "form); encoded results are compared by what the reference decodes them to",
        "message 1 carries Transfer-Encoding: chunked, so Content-Length is judged on message 0 only",
    ],
}

def _tune_malloc():
    """harness-side speed-up only: every compressor call allocates a ~270 kB state; by default glibc serves
    that with mmap/munmap (page faults + kernel time on every call, very slow with 16 workers). Keep it on the heap."""
    try:
        import ctypes

        libc = ctypes.CDLL("libc.so.6")
        libc.mallopt(-3, 1 << 30)  # M_MMAP_THRESHOLD
        libc.mallopt(-1, 1 << 30)  # M_TRIM_THRESHOLD
    except Exception:
        pass


_tune_malloc()

SUPPORTED = ("gzip", "deflate", "br", "zstd")
EMPTY_CACHE = (None, None, None, None)

BODIES = {"empty": b"", "a": b"a", "abc20": b"abc" * 20, "00ff": b"\x00\xff"}


def _foreign(c, b):
    """an encoding produced by an encoder other than mitmproxy's (other level / quality)"""
    if c == "gzip":
        return gzip.compress(b, 9, mtime=0)
    if c == "deflate":
        return zlib.compress(b, 9)
    if c == "br":
        return brotli.compress(b, quality=11)
    if c == "zstd":
        return zstd.compress(b, 19)
    raise AssertionError(c)


def _raw_deflate(b):
    co = zlib.compressobj(9, zlib.DEFLATED, -15)
    return co.compress(b) + co.flush()


INPUTS = {"x": b"x", "empty": b""}
for _c in SUPPORTED:
    INPUTS["%s:a" % _c] = _foreign(_c, BODIES["a"])
    INPUTS["%s:abc20" % _c] = _foreign(_c, BODIES["abc20"])
    INPUTS["%s:trunc" % _c] = _foreign(_c, BODIES["abc20"])[:-3]
INPUTS["zlib:a"] = zlib.compress(BODIES["a"], 9)      # mitmproxy's gzip decoder accepts zlib streams
INPUTS["rawdeflate:a"] = _raw_deflate(BODIES["a"])     # ... and its deflate decoder raw deflate


class Reject(Exception):
    pass


class Undefined(Exception):
    pass


def ref_decode(raw: bytes, coding):
    """stateless reference: content of `raw` under `coding`.
    Raises Undefined where the statement fixes nothing (unknown coding), Reject when the independent decoder
    refuses the input.  Zero bytes get no special treatment: gzip.decompress reads them as empty content,
    zlib / brotli / zstd refuse them."""
    c = (coding or "identity").lower()
    if c in ("identity", "none"):
        return raw
    if c not in SUPPORTED:
        raise Undefined("unknown coding")
    ok, val = _ref_decompress(raw, c)
    if not ok:
        raise Reject(val)
    return val


@functools.lru_cache(maxsize=None)
def _ref_decompress(raw: bytes, c: str):
    """the independent decoders (a pure function of its arguments, hence memoised)"""
    try:
        if c == "gzip":
            return True, gzip.decompress(raw)
        if c == "deflate":
            try:
                return True, zlib.decompress(raw)
            except zlib.error:
                return True, zlib.decompress(raw, -15)
        if c == "br":
            return True, brotli.decompress(raw)
        return True, zstd.decompress(raw)
    except Exception as e:
        return False, "%s: %s" % (type(e).__name__, e)


def sem(raw, coding):
    """what an encoded value means when two histories are compared: the content the reference reads from it, or
    the bytes themselves.  (Only here zero bytes under a compression coding count as empty content: whether zero
    bytes may be *produced* is decided by the output clauses through strict_content, not by history comparison.)"""
    if raw is None:
        return ["none"]
    if raw == b"" and (coding or "").lower() in SUPPORTED:
        return ["content", b""]
    try:
        return ["content", ref_decode(raw, coding)]
    except (Undefined, Reject):
        return ["raw", raw]


def strict_content(raw, coding, zero_bytes_from_cache, t=None):
    """content of an encoded value *produced* by mitmproxy, by the independent decoder.
    Guard (DESIGN: "an empty raw body is accepted as the encoding of empty content"), kept only where the unchanged
    tree itself emits zero bytes: an empty raw body was decoded before - any of gzip/deflate/br/zstd - so the cache
    holds (b"", coding) -> b"" and the encode call of this operation hits that entry and hands the zero bytes back.
    A fresh encode of empty content yields a real stream for every coding and is judged as such."""
    if raw is None:
        return ["none"]
    try:
        return ["content", ref_decode(raw, coding)]
    except (Undefined, Reject):
        if raw == b"" and zero_bytes_from_cache and (coding or "").lower() in SUPPORTED:
            if t is not None:
                t.add("guard_zero_bytes_handed_back_from_empty_raw_cache_entry")
            return ["content", b""]
        return ["raw", raw]


def coding_kind(c):
    if c is None:
        return "absent"
    if c == "":
        return "empty-value"  # header field present with an empty value: no coding listed, i.e. identity
    lc = c.lower()
    if lc in ("identity", "none"):
        return "identity"
    if lc in SUPPORTED:
        return lc if c == lc else "mixed-case"
    return "text-codec" if lc == "utf8" else "unknown"


# ---------------------------------------------------------------------------
# alphabet


def core_alphabet():
    """the smallest alphabet (used for the deepest search): every operation kind, the codings with distinct decoder
    behaviour (gzip lenient, deflate two formats, br strict), every class of input, message 1 with a few operations"""
    acts = []
    for b in ("empty", "a", "abc20"):
        for c in ("identity", "gzip", "deflate", "br", "GZip", "foo"):
            acts.append(["enc", b, c, "strict"])
    acts.append(["enc", "a", "gzip", "ignore"])
    for n, c in (("gzip:a", "gzip"), ("gzip:trunc", "gzip"), ("x", "gzip"), ("deflate:a", "deflate"), ("x", "deflate"),
                 ("br:a", "br"), ("zstd:a", "zstd"), ("zlib:a", "gzip"), ("rawdeflate:a", "deflate"), ("gzip:a", "GZip"),
                 ("x", "foo")):
        acts.append(["dec", n, c, "strict"])
    acts.append(["dec", "gzip:a", "gzip", "ignore"])
    for c in (None, "", "gzip", "deflate", "br", "GZip", "foo"):
        for b in ("empty", "a", "abc20"):
            acts.append(["assign", 0, c, b])
    for n, c in (("gzip:a", "gzip"), ("gzip:trunc", "gzip"), ("x", "gzip"), ("empty", "gzip"), ("deflate:a", "deflate"),
                 ("zlib:a", "gzip"), ("br:a", "br"), ("x", "foo"), ("x", "")):
        acts.append(["wire", 0, n, c])
    for strict in (True, False):
        acts.append(["get", 0, strict])
        acts.append(["decode", 0, strict])
    for c in ("identity", "", "gzip", "deflate", "br"):
        acts.append(["encode", 0, c])
    for c in (None, "gzip", "deflate"):
        for b in ("empty", "a"):
            acts.append(["assign", 1, c, b])
    for n, c in (("gzip:a", "gzip"), ("gzip:trunc", "gzip"), ("x", "gzip"), ("zlib:a", "gzip"), ("deflate:a", "deflate")):
        acts.append(["wire", 1, n, c])
    acts += [["get", 1, True], ["decode", 1, True], ["encode", 1, "gzip"], ["encode", 1, "deflate"]]
    acts += [["setraw", 0, "x"], ["setraw", 0, "gzip:a"], ["setcl", 0, "7"], ["reassign", 0]]
    return acts


def alphabet(level: str):
    if level == "core":
        return core_alphabet()
    full = level == "full"
    acts = []
    bodies = ["empty", "a", "abc20"] + (["00ff"] if full else [])
    enc_codings = ["identity", "gzip", "deflate", "br", "zstd", "GZip", "foo"] + (["none"] if full else [])
    for b in bodies:
        for c in enc_codings:
            acts.append(["enc", b, c, "strict"])
    for b, c in (("a", "gzip"), ("empty", "gzip"), ("a", "foo")):
        acts.append(["enc", b, c, "ignore"])
    dec_pairs = []
    for c in SUPPORTED:
        names = ["%s:a" % c, "%s:trunc" % c, "x"] + (["%s:abc20" % c, "empty"] if full else [])
        dec_pairs += [(n, c) for n in names]
    dec_pairs += [("gzip:a", "GZip"), ("zlib:a", "gzip"), ("rawdeflate:a", "deflate"), ("gzip:a", "deflate"),
                  ("x", "identity"), ("x", "foo")]
    if full:
        dec_pairs += [("gzip:trunc", "GZip"), ("x", "none")]
    for n, c in dec_pairs:
        acts.append(["dec", n, c, "strict"])
    for n, c in (("gzip:a", "gzip"), ("gzip:trunc", "gzip"), ("x", "foo")):
        acts.append(["dec", n, c, "ignore"])
    # message level; message 1 gets the reduced set unless `full`
    for m in (0, 1):
        rich = full or m == 0
        # "" = header field present with an empty value (no coding listed)
        a_codings = [None, "", "identity", "gzip", "deflate", "br", "zstd", "GZip", "foo", "utf8"] if rich else [None, "gzip", "deflate", "foo"]
        a_bodies = bodies if rich else ["empty", "a"]
        for c in a_codings:
            for b in a_bodies:
                acts.append(["assign", m, c, b])
        w = []
        for c in SUPPORTED if rich else ("gzip", "deflate"):
            w += [("%s:a" % c, c), ("%s:trunc" % c, c), ("x", c), ("empty", c)]
        w += [("zlib:a", "gzip"), ("rawdeflate:a", "deflate")]
        if rich:
            w += [("gzip:a", "GZip"), ("gzip:a", "deflate"), ("x", "foo"), ("x", "utf8"), ("x", None), ("x", "")]
        for n, c in w:
            acts.append(["wire", m, n, c])
        for strict in (True, False) if rich else (True,):
            acts.append(["get", m, strict])
            acts.append(["decode", m, strict])
        for c in ["identity", "", "gzip", "deflate", "br", "zstd", "GZip", "foo"] if rich else ["gzip", "deflate"]:
            acts.append(["encode", m, c])
        if rich:
            # the raw body replaced directly (headers untouched, as `m.raw_content = ...` does), a Content-Length that
            # is wrong or missing, and the idiom `m.content = m.content` (assign the content just read)
            for n in ["x", "gzip:a"] + (["empty", "gzip:trunc"] if full else []):
                acts.append(["setraw", m, n])
            if m == 0:
                acts.append(["setcl", m, "7"])
                acts.append(["setcl", m, None])
            acts.append(["reassign", m])
    if not full:
        # zstd takes the same route through the code as br (table entry, strict library decoder, cached): the reduced
        # alphabet keeps one operation of each kind for it, the full alphabet (thorough tier) has all of them
        keep = (["enc", "a", "zstd", "strict"], ["dec", "zstd:a", "zstd", "strict"], ["dec", "zstd:trunc", "zstd", "strict"],
                ["assign", 0, "zstd", "a"], ["wire", 0, "zstd:a", "zstd"])
        acts = [a for a in acts
                if a in keep or not any(x == "zstd" or (isinstance(x, str) and x.startswith("zstd:")) for x in a)]
    return acts


# ---------------------------------------------------------------------------
# the system: plain data; real objects are (re)loaded with it for every operation

_MSGS = None  # two real Response objects, re-used: every field an operation can read is overwritten before use


def _real_message(i, raw, fields):
    global _MSGS
    if _MSGS is None:
        _MSGS = [http.Response(b"HTTP/1.1", 200, b"OK", http.Headers(), b"", None, 0.0, 0.0) for _ in (0, 1)]
    r = _MSGS[i]
    r.data.content = raw
    r.data.headers = http.Headers(fields)
    r.data.trailers = None
    return r


def initial_msgs():
    return [
        (b"", ((b"content-length", b"0"),)),
        (b"", ((b"transfer-encoding", b"chunked"),)),
    ]


class Sys:
    __slots__ = ("cache", "msgs", "pending", "info")

    def __init__(self):
        self.cache = EMPTY_CACHE
        self.msgs = initial_msgs()
        self.pending = []
        self.info = None


def hdr(fields, name):
    for k, v in fields:
        if k.lower() == name:
            return v.decode("latin-1")
    return None


def execute(cache, msgs, a):
    """run action `a` on the real code with the module cache set to `cache`.
    returns (outcome, new_cache, new_msgs); outcome = {"exc": type name | None, "result": value, "msg": index | None}"""
    enc_mod._cache = enc_mod.CachedDecode(*cache)
    op = a[0]
    out = {"exc": None, "result": None, "msg": None}
    msgs = list(msgs)
    try:
        if op == "enc":
            out["result"] = enc_mod.encode(BODIES[a[1]], a[2], a[3])
        elif op == "dec":
            out["result"] = enc_mod.decode(INPUTS[a[1]], a[2], a[3])
        else:
            i = a[1]
            out["msg"] = i
            raw, fields = msgs[i]
            if op == "wire":
                # a message as it arrives from the wire: body, its coding label and a matching Content-Length
                raw = INPUTS[a[2]]
                f = [kv for kv in fields if kv[0].lower() not in (b"content-encoding", b"content-length")]
                if a[3] is not None:
                    f.append((b"content-encoding", a[3].encode()))
                if hdr(fields, b"transfer-encoding") is None:
                    f.append((b"content-length", str(len(raw)).encode()))
                msgs[i] = (raw, tuple(f))
                return out, cache, msgs
            if op == "setraw":
                # what `m.raw_content = ...` does: the body is replaced, no header is touched
                msgs[i] = (INPUTS[a[2]], fields)
                return out, cache, msgs
            if op == "setcl":
                # a wrong (or missing) Content-Length header
                f = [kv for kv in fields if kv[0].lower() != b"content-length"]
                if a[2] is not None:
                    f.append((b"content-length", a[2].encode()))
                msgs[i] = (raw, tuple(f))
                return out, cache, msgs
            r = _real_message(i, raw, fields)
            try:
                if op == "assign":
                    if a[2] is None:
                        r.headers.pop("content-encoding", None)
                    else:
                        r.headers["content-encoding"] = a[2]
                    r.content = BODIES[a[3]]
                    out["result"] = r.content  # read back
                elif op == "get":
                    out["result"] = r.get_content(a[2])
                elif op == "reassign":
                    out["read"] = r.content
                    r.content = out["read"]  # m.content = m.content
                    out["result"] = r.content  # read back
                elif op == "decode":
                    r.decode(a[2])
                elif op == "encode":
                    r.encode(a[2])
                else:
                    raise HarnessError("unknown action %r" % (a,))
            finally:
                msgs[i] = (r.raw_content, tuple(tuple(x) for x in r.headers.fields))
    except HarnessError:
        raise
    except KeyboardInterrupt:
        raise
    except BaseException as e:
        out["exc"] = type(e).__name__
        out["result"] = None
    new_cache = tuple(enc_mod._cache)
    return out, new_cache, msgs


def semantic(a, out, msgs):
    """history-independent meaning of an outcome: exceptions by type, encoded values by what they decode to,
    Content-Length left out (it follows the concrete encoded form and is judged on its own)"""
    op = a[0]
    res = out["result"]
    if op == "enc" and isinstance(res, bytes):
        res = sem(res, a[2])
    s = {"exc": out["exc"], "result": res}
    if "read" in out:
        s["read"] = out["read"]
    if out["msg"] is not None:
        raw, fields = msgs[out["msg"]]
        ce = hdr(fields, b"content-encoding")
        s["content_encoding"] = ce
        s["body"] = sem(raw, ce)
        s["other_headers"] = [[k, v] for k, v in fields if k.lower() not in (b"content-encoding", b"content-length")]
    return s


_OUTCOMES: set = set()  # per worker: outcomes already handed to a tally (avoids re-hashing; the merged set is the union)
_SHADOW: dict = {}  # (action, message-local state) -> semantic outcome with a pristine cache; a pure function, memoised per worker


def shadow(a, msgs):
    i = a[1] if a[0] not in ("enc", "dec") else None
    key = (repr(a), msgs[i] if i is not None else None)
    got = _SHADOW.get(key)
    if got is None:
        o, _, m2 = execute(EMPTY_CACHE, msgs, a)
        got = _SHADOW[key] = semantic(a, o, m2)
    return got


def cache_features(cache, a, msgs):
    """how the cache entry in front of the operation relates to it (trigger class of a case)"""
    if cache == EMPTY_CACHE:
        entry = "empty"
    elif cache[0] == b"" and cache[3] == b"":
        entry = "empty-raw"  # (b"", coding) -> b"": an empty raw body was read as empty content
    else:
        try:
            entry = "canonical" if ref_decode(cache[0], cache[1]) == cache[3] else "divergent"
        except Undefined:
            entry = "empty-raw"  # (b"", coding) -> b"": an empty raw body read as empty content
        except Reject:
            entry = "lenient"  # mitmproxy decoded what the reference decoder refuses (truncated, garbage, zlib-as-gzip)
    # which codec call the operation makes first
    op = a[0]
    call = None
    if op == "enc":
        call = ("encode", BODIES[a[1]], a[2], a[3])
    elif op == "dec":
        call = ("decode", INPUTS[a[1]], a[2], a[3])
    elif op == "assign":
        call = ("encode", BODIES[a[3]], a[2] or "identity", "strict")
    elif op in ("get", "decode"):
        ce = hdr(msgs[a[1]][1], b"content-encoding")
        if ce and msgs[a[1]][0] is not None:
            call = ("decode", msgs[a[1]][0], ce, "strict")
    elif op == "encode":
        call = ("encode", msgs[a[1]][0], a[2], "strict")
    elif op == "reassign":
        raw, ce = msgs[a[1]][0], hdr(msgs[a[1]][1], b"content-encoding")
        if raw is not None and ce and ce.lower() in SUPPORTED:
            # the read decodes (raw, ce) and leaves that pair in the cache; the assignment's encode call then finds
            # it: the entry that matters is the one the operation makes itself
            if raw == b"":
                return "empty-raw", True, "decode"
            try:
                ref_decode(raw, ce)
                entry = "canonical"
            except Undefined:
                entry = "empty-raw"
            except Reject:
                entry = "lenient"
            return entry, True, "decode"
        if raw is not None:
            call = ("encode", raw, ce or "identity", "strict")
    hit = False
    if call is not None and cache != EMPTY_CACHE:
        kind, val, coding, errors = call
        same = (cache[3] == val) if kind == "encode" else (cache[0] == val)
        hit = bool(same and cache[1] == coding.lower() and cache[2] == errors)
    return entry, hit, (call[0] if call else None)


class Spec:
    def __init__(self, level):
        self.acts = alphabet(level)

    def build(self):
        return Sys()

    def clone(self, s):
        c = Sys()
        c.cache = s.cache
        c.msgs = list(s.msgs)
        return c

    def fingerprint(self, s):
        # cache entry + (raw body, header fields) of both messages: all plain bytes/str/None tuples, so their repr
        # is a canonical, deterministic rendering
        return repr((tuple(s.cache), tuple(s.msgs)))

    def actions(self, s):
        return self.acts

    def apply(self, s, a):
        pre_cache, pre_msgs = s.cache, list(s.msgs)
        out, s.cache, s.msgs = execute(pre_cache, pre_msgs, a)
        s.info = (a, pre_cache, pre_msgs, out)

    # -- oracle ------------------------------------------------------------
    def check(self, s, hist, t: Tally):
        if s.info is None:
            t.case(None, nontrivial=False, key=self.fingerprint(s))
            return
        a, pre_cache, pre_msgs, out = s.info
        s.info = None
        judge_step(a, pre_cache, pre_msgs, out, s.cache, s.msgs, list(hist), t)
        if len(hist) >= 2 and hist[-1][0] == "encode" and hist[-2][0] == "decode" and hist[-1][1] == hist[-2][1]:
            t.add("decode_then_encode_sequences")
        nontrivial = s.cache != EMPTY_CACHE or any(hdr(f, b"content-encoding") for _, f in s.msgs)
        t.case(None, nontrivial=nontrivial, key=self.fingerprint(s))
        if len(hist) == 3 and len(t.samples) < 2 and hist[0][0] == "wire" and hist[1][0] == "get" and hist[2][0] == "assign":
            t.samples.append({"history": list(hist), "state": self.fingerprint(s)})


def judge_step(a, pre_cache, pre_msgs, out, post_cache, post_msgs, case, t: Tally, verbose=False):
    op = a[0]
    entry, hit, call = cache_features(pre_cache, a, pre_msgs)
    coding = a[2] if op in ("enc", "dec", "assign", "encode") else (a[3] if op == "wire" else hdr(pre_msgs[a[1]][1], b"content-encoding"))
    feats = {"op": op, "coding": coding_kind(coding), "cache_entry": entry, "cache_hit": hit}
    if call:
        t.add("%s_call_cache_%s" % (call, "hit" if hit else ("miss_populated" if pre_cache != EMPTY_CACHE else "miss_empty")))
    t.add("op_%s" % op)
    if out["exc"]:
        t.add("op_raised_%s" % out["exc"])
    lc = (coding or "identity").lower()
    supported = lc in SUPPORTED or lc in ("identity", "none")
    # the only situation in which zero bytes are accepted as the encoding of empty content (see strict_content)
    zb = entry == "empty-raw" and hit

    def J(clause, cond, exp=None, obs=None):
        t.judge(clause, cond, feats, case, exp, obs)

    if verbose:
        print("  %r\n     cache before: %r\n     outcome: %r\n     cache after: %r" % (a, pre_cache, out, post_cache))
        if out["msg"] is not None:
            print("     message %d before: %r\n     message %d after:  %r" % (out["msg"], pre_msgs[out["msg"]], out["msg"], post_msgs[out["msg"]]))

    if op in ("wire", "setraw", "setcl"):
        return  # set-up steps made by the harness itself: nothing of mitmproxy ran
    # --- stateless reference -------------------------------------------------
    if op == "enc" and supported:
        b = BODIES[a[1]]
        res = out["result"]
        ok = out["exc"] is None and isinstance(res, bytes) and strict_content(res, coding, zb, t) == ["content", b]
        J("encode_output_decodes_to_input", ok, b, {"exc": out["exc"], "encoded": res})
    elif op == "dec" and supported:
        x = INPUTS[a[1]]
        try:
            want = ref_decode(x, coding)
        except (Undefined, Reject):
            want = None
            t.add("decode_reference_undefined_or_rejects")
        if want is not None:
            J("decode_matches_reference", out["exc"] is None and out["result"] == want, want, out)
    elif op == "assign":
        i = a[1]
        b = BODIES[a[3]]
        raw, fields = post_msgs[i]
        if supported:
            J("assign_then_read_same_bytes", out["exc"] is None and out["result"] == b, b, out)
            ce_after = hdr(fields, b"content-encoding")
            J("raw_decodes_independently", strict_content(raw, ce_after, zb, t) == ["content", b], b,
              {"raw": raw, "content_encoding": ce_after})
    elif op == "get":
        i = a[1]
        raw, fields = pre_msgs[i]
        if supported and raw is not None:
            try:
                want = ref_decode(raw, coding)
            except (Undefined, Reject):
                want = None
                t.add("decode_reference_undefined_or_rejects")
            if want is not None:
                J("decode_matches_reference", out["exc"] is None and out["result"] == want, want, out)
    elif op == "reassign":
        # m.content = m.content: whatever was read is what must be there afterwards
        i = a[1]
        if supported and out["exc"] is None and out.get("read") is not None:
            c = out["read"]
            raw2, fields2 = post_msgs[i]
            J("assign_then_read_same_bytes", out["result"] == c, c, out)
            J("raw_decodes_independently", strict_content(raw2, hdr(fields2, b"content-encoding"), zb, t) == ["content", c], c,
              {"raw": raw2, "content_encoding": hdr(fields2, b"content-encoding")})
    elif op == "decode":
        i = a[1]
        raw, fields = pre_msgs[i]
        if supported and raw is not None:
            try:
                want = ref_decode(raw, coding)
            except (Undefined, Reject):
                want = None
            if want is not None:
                raw2, fields2 = post_msgs[i]
                J("decode_preserves_content",
                  out["exc"] is None and strict_content(raw2, hdr(fields2, b"content-encoding"), False) == ["content", want],
                  want, {"exc": out["exc"], "raw": raw2, "content_encoding": hdr(fields2, b"content-encoding")})
    elif op == "encode":
        i = a[1]
        raw, fields = pre_msgs[i]
        if hdr(fields, b"content-encoding") is None and raw is not None and lc in SUPPORTED:
            # a decoded message: its content is its raw body; re-encoding must preserve it
            raw2, fields2 = post_msgs[i]
            J("decode_then_encode_preserves_content",
              out["exc"] is None and strict_content(raw2, hdr(fields2, b"content-encoding"), zb, t) == ["content", raw],
              raw, {"exc": out["exc"], "raw": raw2, "content_encoding": hdr(fields2, b"content-encoding")})
    # --- Content-Length ----------------------------------------------------------
    # judged after every operation that assigns a body through mitmproxy and completes (the body or the header may
    # have been set inconsistently before by setraw/setcl: an assignment has to leave them consistent; reads, failed
    # operations and decode() of an empty body - documented as "no action" - change nothing and are not judged)
    assigns = op in ("assign", "reassign", "encode") or (op == "decode" and bool(pre_msgs[a[1]][0]))
    if out["msg"] is not None and assigns and out["exc"] is None:
        raw, fields = post_msgs[out["msg"]]
        if raw is not None and hdr(fields, b"transfer-encoding") is None:
            cl = hdr(fields, b"content-length")
            J("content_length_equals_raw_len_without_TE", cl == str(len(raw)), str(len(raw)), cl)
        elif hdr(fields, b"transfer-encoding") is not None:
            t.add("content_length_not_judged_TE_present")
    # --- history independence --------------------------------------------------
    want = shadow(a, pre_msgs)
    got = semantic(a, out, post_msgs)
    J("history_independent", got == want, want, got)
    oc = repr(got)
    if oc not in _OUTCOMES:
        _OUTCOMES.add(oc)
        t.outcome(oc)


def run(ctx):
    # the independent encodings must differ from mitmproxy's own so that the cache handing back "the original
    # encoded form" is really a different byte string
    differ = sum(1 for c in SUPPORTED for b in ("a", "abc20") if INPUTS["%s:%s" % (c, b)] != enc_mod.encode(BODIES[b], c))
    enc_mod._cache = enc_mod.CachedDecode(*EMPTY_CACHE)
    ctx.info["independent_encodings_differing_from_mitmproxys"] = differ
    # quick: reduced alphabet to depth 3; thorough: full alphabet to depth 3 and the core alphabet to depth 4.
    # The searches run in-process (nproc=1): a transition costs ~50 us, and measured on this machine a level dealt to
    # forked workers is several times slower than in-process (copy-on-write page faults dominate), so the pool only
    # hurts; wall time is then independent of the load other jobs put on the remaining cores.
    searches = ctx.pick([("reduced", 3)], [("full", 3), ("core", 4)])
    ctx.bounds = {"bodies": sorted(BODIES), "inputs": sorted(INPUTS),
                  "operations": "enc(body,coding,errors) dec(input,coding,errors) assign(msg,coding,body) wire(msg,input,coding) "
                                "get(msg,strict) decode(msg,strict) encode(msg,coding) setraw(msg,input) setcl(msg,value|absent) "
                                "reassign(msg) [m.content = m.content]",
                  "searches": []}
    for name, depth in searches:
        spec = Spec(name)
        states, capped = explore.bfs(spec, depth, ctx.tally, log=ctx.log, nproc=1)
        if capped:
            ctx.cap("max_states")
        ctx.bounds["searches"].append({"alphabet": name, "actions_per_state": len(spec.acts), "bfs_depth": depth, "states": states})
        ctx.log("bfs(%s alphabet, depth %d) done: %d states, %d actions per state" % (name, depth, states, len(spec.acts)))
    if len(searches) > 1:
        ctx.assumptions.append("`states` is the sum over the two searches of this tier (states reachable in both are counted twice)")


def replay(case, t: Tally, verbose=False):
    s = Sys()
    hist = []
    for a in case:
        a = list(a)
        pre_cache, pre_msgs = s.cache, list(s.msgs)
        out, s.cache, s.msgs = execute(pre_cache, pre_msgs, a)
        hist.append(a)
        judge_step(a, pre_cache, pre_msgs, out, s.cache, s.msgs, list(hist), t, verbose=verbose)
