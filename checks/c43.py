"""C43 - the flow view always shows exactly the matching flows in order.

Engine X: BFS over operation histories on the real `View` addon (with its `Focus` and
`Settings`), driven through its command methods the way test_view.py does, inside a
`taddons.context`.  A state is the action history: every expansion builds a fresh View
and fresh flows and replays the prefix.

Reference model (written from the statement, evaluated *fresh* in every state): the set
of stored flows, the current predicate (filter and marked-only) and the current key
function.  Discrepancies are attributed to the operation that *introduced* them, so that
one defect is reported once, under the operation that caused it, and a different defect
in the same area still shows up under its own (clause, features).
"""
from __future__ import annotations

from mitmproxy import tcp
from mitmproxy.addons import view
from mitmproxy.test import tflow
from mitmproxy.test import tutils

from vmc import explore
from vmc.drivers import addonctx
from vmc.tally import Tally

META = {
    "level": "model_checking",
    "technique": "explicit-state BFS over operation histories (add/update/edit/remove, filter, order, direction, marked-only, "
    "clears, focus moves) on the real View addon against a set/predicate/key-function model evaluated fresh in every state",
    "claim": "every operation sequence up to the depth bound of each scope was executed on the real View, and membership, "
    "order, focus, settings and notifications were judged after every operation; the property quantifies over histories of a "
    "deterministic in-memory component, so bounded exhaustive exploration with state de-duplication decides it for the bound",
    "rule": "a case is one transition (state, operation); non-trivial = the operation changed the store, the view, its order, "
    "the focus or sent a notification; distinct = distinct operation histories ending in such an operation (each expanded "
    "state is reached by exactly one history)",
    "assumptions": [
        "a flow's fields are changed by `edit` (change + update([flow])) or, in the order scope, by `mutate` (change without "
        "telling the view, as happens between two hooks of a live flow); after a mutate the flow's filter/marked membership "
        "and its position are not judged until the next update of that flow, but everything else is (a removed or cleared "
        "flow must be gone from the view whatever happened to its sort key)",
        "order by method/url constrains only pairs of HTTP flows (what 'method'/'url' of a TCP or DNS flow is, is not in the "
        "statement); order by time and size constrains all pairs; ties are unconstrained",
        "notifications: without a refresh signal, flows entering/leaving the view need exactly one view_add/view_remove, "
        "view_update is only sent for the updated flow while it is in the view, store_remove exactly for flows leaving the "
        "store (unless store_refresh); a refresh signal stands for any change; the index carried by view_remove and order "
        "changes without membership change (set_order sends nothing) are not judged",
        "filter / order / direction are set through the command methods (set_filter_cmd, set_order, set_reversed), not "
        "through the view_* options; focus_follow stays off",
        "flows are built with live=False so that remove() does not kill them (kill rewrites flow.error)",
        "scopes: the 'full' scope uses every operation (3 flows at depth 4 quick, 4 flows at depth 5 thorough); the 'order' scope starts with "
        "two HTTP flows already stored and uses only the operations that touch ordering, at a larger depth",
        "feature edited_out_of_sight (used only to tell the known stale-key finding from other ordering defects): a flow's "
        "key for the selected order was changed by an edit while the flow was not shown under that order before and after "
        "the update, and the key cached in settings differs from the fresh one",
    ],
}

addonctx.quiet_logging()
addonctx.memoize_filter_parse()

FILTERS = [None, "~m GET", "~u /a"]
ORDERS = ["time", "method", "url", "size"]
TIMES = {"g": 1, "p": 2, "t": 3, "d": 4}
# editable fields: name -> field -> (initial, alternative)
FIELDS = {
    "g": {"mark": ("", ":m:"), "meth": ("GET", "POST"), "url": ("/a", "/c"), "size": (2, 5)},
    "p": {"mark": ("", ":m:"), "meth": ("POST", "GET"), "url": ("/b", "/a0"), "size": (4, 1)},
    "t": {"mark": ("", ":m:"), "size": (6, 0)},
    "d": {"mark": ("", ":m:"), "size": (0, 1)},
}
KIND = {"g": "http", "p": "http", "t": "tcp", "d": "dns"}

FULL_QUICK = {"name": "full", "pool": ["g", "p", "t"], "prefix": [],
              "ops": ["add", "update", "remove", "edit", "filter", "order", "reverse", "marked", "clear", "clear_unmarked", "focus"]}
FULL_THOROUGH = dict(FULL_QUICK, pool=["g", "p", "t", "d"])
ORDER_SCOPE = {"name": "order", "pool": ["g", "p"], "prefix": [["add", "g"], ["add", "p"]],
               "ops": ["edit", "mutate", "filter", "order", "reverse", "marked", "remove", "add"],
               "edit_fields": ["size", "meth", "mark"], "mutate_fields": ["size", "meth"],
               "filters": [0, 1], "orders": ["time", "size", "method"]}


_CONNS = []


def make_flow(name):
    """a fresh flow per execution from the tflow builders; the two connection objects are shared (the view only
    reads server_conn.address)"""
    if not _CONNS:
        _CONNS.extend([tflow.tclient_conn(), tflow.tserver_conn()])
    cc, sc = _CONNS
    k = KIND[name]
    if k == "http":
        f = tflow.tflow(client_conn=cc, server_conn=sc,
                        req=tutils.treq(host="h", method=FIELDS[name]["meth"][0].encode(), path=FIELDS[name]["url"][0].encode(),
                                        content=b"x" * FIELDS[name]["size"][0]), live=False)
    elif k == "tcp":
        f = tflow.ttcpflow(client_conn=cc, server_conn=sc, messages=[tcp.TCPMessage(True, b"x" * FIELDS[name]["size"][0])])
        f.live = False
    else:
        f = tflow.tdnsflow(client_conn=cc, server_conn=sc, live=False)
    f.id = name
    f.timestamp_created = TIMES[name]
    return f


def set_field(f, name, field, value):
    k = KIND[name]
    if field == "mark":
        f.marked = value
    elif field == "meth":
        f.request.method = value
    elif field == "url":
        f.request.path = value
    elif field == "size":
        if k == "http":
            f.request.content = b"x" * value
        elif k == "tcp":
            f.messages = [tcp.TCPMessage(True, b"x" * value)] if value else []
        else:
            f.response = tutils.tdnsresp() if value else None


# -- the model's own reading of a flow (never through view.Order* or flowfilter) ---------------


def m_matches(fidx, f, name):
    if fidx == 0:
        return True
    if KIND[name] != "http":
        return False
    if fidx == 1:
        return f.request.method == "GET"
    return "/a" in f.request.path


def m_key(order, f, name):
    """None = the statement does not say how this flow compares under this order"""
    k = KIND[name]
    if order == "time":
        return f.timestamp_created
    if order == "size":
        if k == "http":
            return len(f.request.raw_content or b"") + (len(f.response.raw_content or b"") if f.response else 0)
        if k == "tcp":
            return sum(len(m.content) for m in f.messages)
        return f.response.size if f.response else 0
    if k != "http":
        return None
    return f.request.method if order == "method" else f.request.path


class Recorder:
    def __init__(self):
        self.log = []

    def view_add(self, flow):
        self.log.append(("view_add", flow.id))

    def view_remove(self, flow, index):
        self.log.append(("view_remove", flow.id))

    def view_update(self, flow):
        self.log.append(("view_update", flow.id))

    def view_refresh(self):
        self.log.append(("view_refresh", None))

    def store_remove(self, flow):
        self.log.append(("store_remove", flow.id))

    def store_refresh(self):
        self.log.append(("store_refresh", None))


_CTX = {}


def context():
    """one taddons.context per process: the View methods driven here never read mitmproxy.ctx, the context is
    there so that `ctx` is what it is in the repository's tests"""
    import os
    pid = os.getpid()
    if pid not in _CTX:
        _CTX.clear()
        _CTX[pid] = addonctx.new_context()
    return _CTX[pid]


class Sys:
    def __init__(self):
        self.v = None
        self.rec = None
        self.flows = {}
        self.val = {}          # name -> field -> current value (what edit operations have done)
        # model
        self.store = []
        self.fidx = 0
        self.order = "time"
        self.reversed = False
        self.marked_only = False
        self.oos = set()       # (name, order): key changed by an edit while the flow was not shown or another order was selected
        self.dirty = set()     # flows changed by `mutate` (no update() yet): the view has not been told, so their
        #                        filter/marked membership and their position are not judged until the next update
        self.step = None


class Spec:
    def __init__(self, scope):
        self.scope = scope
        self.pool = scope["pool"]
        self.ops = set(scope["ops"])
        self.edit_fields = scope.get("edit_fields", ["mark", "meth", "url", "size"])
        self.mutate_fields = scope.get("mutate_fields", ["meth", "size"])
        self.filters = scope.get("filters", [0, 1, 2])
        self.orders = scope.get("orders", ORDERS)

    def build(self):
        addonctx.activate(context())
        s = Sys()
        s.v = view.View()
        s.rec = Recorder()
        v, r = s.v, s.rec
        v.sig_view_add.connect(r.view_add)
        v.sig_view_remove.connect(r.view_remove)
        v.sig_view_update.connect(r.view_update)
        v.sig_view_refresh.connect(r.view_refresh)
        v.sig_store_remove.connect(r.store_remove)
        v.sig_store_refresh.connect(r.store_refresh)
        for n in self.pool:
            s.flows[n] = make_flow(n)
            s.val[n] = {fld: FIELDS[n][fld][0] for fld in FIELDS[n]}
        for a in self.scope["prefix"]:
            self.apply(s, a)
        s.step = None
        return s

    # -- observation ------------------------------------------------------------------
    def shown(self, s):
        return [f.id for f in s.v]

    def order_names(self, s):
        m = {id(o): n for n, o in s.v.orders.items()}
        m[id(s.v.default_order)] = "default"
        return m

    def cache(self, s):
        names = self.order_names(s)
        out = []
        for fid, d in sorted(s.v.settings._values.items()):
            out.append([fid, sorted([names.get(int(k[7:]), k) if k.startswith("_order_") else k, v] for k, v in d.items())])
        return out

    def fingerprint(self, s):
        v = s.v
        return [
            list(v._store), [f.id for f in v._view], s.fidx, s.order, v.order_reversed, v.show_marked,
            v.focus.flow.id if v.focus.flow else None, self.cache(s),
            sorted((n, sorted(d.items())) for n, d in s.val.items()), s.store, s.reversed, s.marked_only, sorted(s.oos),
            sorted(s.dirty),
        ]

    def actions(self, s):
        acts = []
        ops = self.ops
        for n in self.pool:
            stored = n in s.store
            if "add" in ops and not stored:
                acts.append(["add", n])
            if stored:
                if "update" in ops:
                    acts.append(["update", n])
                if "edit" in ops:
                    for fld in self.edit_fields:
                        if fld in FIELDS[n]:
                            acts.append(["edit", n, fld])
                if "mutate" in ops:
                    for fld in self.mutate_fields:
                        if fld in FIELDS[n]:
                            acts.append(["mutate", n, fld])
                if "remove" in ops:
                    acts.append(["remove", n])
        if "filter" in ops:
            acts += [["filter", i] for i in self.filters if i != s.fidx]
        if "order" in ops:
            acts += [["order", o] for o in self.orders if o != s.order]
        if "reverse" in ops:
            acts.append(["reverse", not s.reversed])
        if "marked" in ops:
            acts.append(["marked"])
        if "clear" in ops:
            acts.append(["clear"])
        if "clear_unmarked" in ops:
            acts.append(["clear_unmarked"])
        if "focus" in ops:
            acts += [["focus", "next"], ["focus", "prev"], ["focus", "first"], ["focus", "last"]]
        return acts

    # -- model evaluation -------------------------------------------------------------
    def discrepancies(self, s, shown):
        """set of (kind, flow) between the shown list and what the statement says it must be"""
        d = set()
        for n in set(shown):
            if shown.count(n) > 1:
                d.add(("duplicate", n))
            f = s.flows.get(n)
            if n not in s.store:
                d.add(("extra_not_stored", n))
            elif n in s.dirty:
                pass
            elif not m_matches(s.fidx, f, n):
                d.add(("extra_filtered_out", n))
            elif s.marked_only and not f.marked:
                d.add(("extra_unmarked", n))
        for n in s.store:
            f = s.flows[n]
            if n in s.dirty:
                continue
            if m_matches(s.fidx, f, n) and (f.marked or not s.marked_only) and n not in shown:
                d.add(("missing", n))
        return d

    def misordered(self, s, shown):
        """pairs (a, b) with a shown before b although the selected key says b must come first"""
        keys = {n: m_key(s.order, s.flows[n], n) for n in set(shown) if n in s.flows}
        bad = set()
        for i, a in enumerate(shown):
            for b in shown[i + 1:]:
                ka, kb = keys.get(a), keys.get(b)
                if ka is None or kb is None or a == b or a in s.dirty or b in s.dirty:
                    continue
                if (ka < kb) if s.reversed else (ka > kb):
                    bad.add((a, b))
        return bad

    def cache_stale(self, s, n):
        v = s.v
        d = v.settings._values.get(n, {})
        k = "_order_%s" % id(v.order_key)
        if k not in d or n not in s.flows:
            return False
        return d[k] != v.order_key.generate(s.flows[n])

    def focus_state(self, s, shown):
        fl = s.v.focus.flow
        if not shown:
            return "ok" if fl is None else "set_but_view_empty"
        if fl is None:
            return "none_but_view_not_empty"
        return "ok" if fl.id in shown else "not_in_view"

    # -- transitions ------------------------------------------------------------------
    def apply(self, s, a):
        v = s.v
        op = a[0]
        pre_shown = self.shown(s)
        pre_store = list(v._store)
        pre_d = self.discrepancies(s, pre_shown)
        pre_m = self.misordered(s, pre_shown)
        pre_focus = self.focus_state(s, pre_shown)
        pre_focus_id = v.focus.flow.id if v.focus.flow else None
        pre_settings = set(v.settings) - set(pre_store)
        s.rec.log = []
        opname = op if op not in ("edit", "mutate") else op + "_" + a[2]
        op_class = {"edit": "update"}.get(op, op)
        target = a[1] if op in ("add", "update", "edit", "mutate", "remove") else None
        exc = None
        try:
            if op == "add":
                v.add([s.flows[target]])
                s.store.append(target)
            elif op == "update":
                v.update([s.flows[target]])
                s.dirty.discard(target)
            elif op == "mutate":
                # the flow changes, nobody tells the view (a later update/remove/clear has to cope)
                fld = a[2]
                f = s.flows[target]
                old_keys = {o: m_key(o, f, target) for o in ORDERS}
                cur = s.val[target][fld]
                new = FIELDS[target][fld][1] if cur == FIELDS[target][fld][0] else FIELDS[target][fld][0]
                set_field(f, target, fld, new)
                s.val[target][fld] = new
                s.dirty.add(target)
                for o in ORDERS:
                    if m_key(o, f, target) != old_keys[o]:
                        s.oos.add((target, o))
            elif op == "edit":
                s.dirty.discard(target)
                fld = a[2]
                f = s.flows[target]
                old_keys = {o: m_key(o, f, target) for o in ORDERS}
                cur = s.val[target][fld]
                new = FIELDS[target][fld][1] if cur == FIELDS[target][fld][0] else FIELDS[target][fld][0]
                set_field(f, target, fld, new)
                s.val[target][fld] = new
                changed_keys = [o for o in ORDERS if m_key(o, f, target) != old_keys[o]]
                v.update([f])
                still_shown = target in [x.id for x in v]
                for o in changed_keys:
                    # "in sight" = the flow is shown under this very order before and after the update
                    if o == s.order and target in pre_shown and still_shown:
                        s.oos.discard((target, o))
                    else:
                        s.oos.add((target, o))
            elif op == "remove":
                v.remove([s.flows[target]])
                s.store.remove(target)
                s.oos = {x for x in s.oos if x[0] != target}
                s.dirty.discard(target)
            elif op == "filter":
                v.set_filter_cmd(FILTERS[a[1]] or "")
                s.fidx = a[1]
            elif op == "order":
                v.set_order(a[1])
                s.order = a[1]
            elif op == "reverse":
                v.set_reversed(a[1])
                s.reversed = a[1]
            elif op == "marked":
                v.toggle_marked()
                s.marked_only = not s.marked_only
            elif op == "clear":
                v.clear()
                s.store = []
                s.oos = set()
                s.dirty = set()
            elif op == "clear_unmarked":
                v.clear_not_marked()
                gone = [n for n in s.store if not s.flows[n].marked]
                s.store = [n for n in s.store if s.flows[n].marked]
                s.oos = {x for x in s.oos if x[0] not in gone}
                s.dirty -= set(gone)
            elif op == "focus":
                if a[1] == "next":
                    v.focus_next()
                elif a[1] == "prev":
                    v.focus_prev()
                elif a[1] == "first":
                    v.go(0)
                else:
                    v.go(-1)
        except KeyboardInterrupt:
            raise
        except BaseException as e:
            exc = "%s: %s" % (type(e).__name__, e)
        st = s.step = {"bad": [], "ok": [], "changed": False}
        feats = {"op": opname, "op_class": op_class, "marked_only": s.marked_only}

        def bad(clause, exp, obs, **more):
            st["bad"].append((clause, dict(feats, **more), exp, obs))

        try:
            shown = self.shown(s)
        except KeyboardInterrupt:
            raise
        except BaseException as e:
            exc = exc or "iterating the view: %s: %s" % (type(e).__name__, e)
            shown = []
        if exc is not None:
            bad("view_is_exactly_matching_stored_flows_once", None, exc, cause="exception", exception=exc.split(":")[0])
            return
        post_store = list(v._store)
        sigs = list(s.rec.log)

        # 1. membership
        d = self.discrepancies(s, shown)
        new_d = sorted(d - pre_d)
        want = [n for n in s.store if m_matches(s.fidx, s.flows[n], n) and (s.flows[n].marked or not s.marked_only)]
        for kind, n in new_d:
            bad("view_is_exactly_matching_stored_flows_once", {"view (as a set)": sorted(want)}, {"view": shown, "flow": n}, diff=kind)
        if sorted(post_store) != sorted(s.store):
            bad("view_is_exactly_matching_stored_flows_once", sorted(s.store), post_store, diff="store_content")
        if not new_d:
            st["ok"].append("view_is_exactly_matching_stored_flows_once")

        # 2. order
        m = self.misordered(s, shown)
        new_m = sorted(m - pre_m)
        if new_m:
            oos = any(((x, s.order) in s.oos and self.cache_stale(s, x)) for pair in new_m for x in pair)
            bad("sorted_by_selected_key", {"order": s.order, "reversed": s.reversed,
                                           "keys": {n: m_key(s.order, s.flows[n], n) for n in shown}},
                {"view": shown, "misordered_pairs": new_m}, order=s.order, reversed=s.reversed, edited_out_of_sight=oos)
        else:
            st["ok"].append("sorted_by_selected_key")

        # 3. focus
        fs = self.focus_state(s, shown)
        if fs != "ok" and fs != pre_focus:
            bad("focus_in_view_or_none_iff_empty", "a flow of the view (None iff the view is empty)",
                {"view": shown, "focus": v.focus.flow.id if v.focus.flow else None}, focus=fs)
        else:
            st["ok"].append("focus_in_view_or_none_iff_empty")

        # 4. settings
        stray = set(v.settings) - set(post_store)
        if stray - pre_settings:
            bad("settings_only_for_stored", sorted(post_store), sorted(v.settings), stray="settings_for_unstored_flow")
        else:
            st["ok"].append("settings_only_for_stored")

        # 5. notifications against what really changed in the view / store
        nbad = len(st["bad"])
        kinds = [k for k, _ in sigs]
        if "view_refresh" not in kinds:
            entered = [n for n in shown if n not in pre_shown]
            left = [n for n in pre_shown if n not in shown]
            adds = [n for k, n in sigs if k == "view_add"]
            rems = [n for k, n in sigs if k == "view_remove"]
            if sorted(adds) != sorted(entered):
                bad("signals_match_changes", {"view_add for": sorted(entered)}, sigs, signal="view_add",
                    mismatch="missing" if len(adds) < len(entered) else "spurious")
            if sorted(rems) != sorted(left):
                bad("signals_match_changes", {"view_remove for": sorted(left)}, sigs, signal="view_remove",
                    mismatch="missing" if len(rems) < len(left) else "spurious")
        ups = [n for k, n in sigs if k == "view_update"]
        for n in ups:
            if not (op_class == "update" and n == target and n in shown):
                bad("signals_match_changes", "view_update only for the updated flow while it is shown", sigs,
                    signal="view_update", mismatch="spurious")
        if op_class == "update" and target in pre_shown and target in shown and "view_refresh" not in kinds and target not in ups:
            bad("signals_match_changes", {"view_update for": target}, sigs, signal="view_update", mismatch="missing")
        if "store_refresh" not in kinds:
            gone = sorted(n for n in pre_store if n not in post_store)
            srem = sorted(n for k, n in sigs if k == "store_remove")
            if gone != srem:
                bad("signals_match_changes", {"store_remove for": gone}, sigs, signal="store_remove",
                    mismatch="missing" if len(srem) < len(gone) else "spurious")
        if len(st["bad"]) == nbad:
            st["ok"].append("signals_match_changes")
        st["changed"] = bool(sigs) or shown != pre_shown or post_store != pre_store or \
            (v.focus.flow.id if v.focus.flow else None) != pre_focus_id

    # -- judging ----------------------------------------------------------------------
    def check(self, s, hist, t: Tally):
        st = s.step
        s.step = None
        if not hist or st is None:
            t.case(None, nontrivial=False)
            return
        for clause, feats, exp, obs in st["bad"]:
            t.bad(clause, feats, self.scope["prefix"] + list(hist), exp, obs)
        for clause in st["ok"]:
            t.ok(clause)
        shown = self.shown(s) if not st["bad"] else None
        if shown is not None:
            t.outcome([shown, s.v.focus.flow.id if s.v.focus.flow else None])
        sample = None
        if st["changed"] and len(hist) >= 4 and len(t.samples) < 3:
            sample = {"scope": self.scope["name"], "history": self.scope["prefix"] + list(hist), "view": shown}
        t.case(sample, nontrivial=st["changed"], key=[self.scope["name"], list(hist)])


def run(ctx):
    full = FULL_THOROUGH if ctx.thorough else FULL_QUICK
    full_depth = ctx.pick(4, 5)
    order_depth = ctx.pick(5, 6)
    ctx.bounds = {
        "filters": FILTERS, "orders": ORDERS, "editable_fields": {n: {k: list(v) for k, v in d.items()} for n, d in FIELDS.items()},
        "full": dict(full, depth=full_depth),
        "order": dict(ORDER_SCOPE, depth=order_depth),
    }
    for scope, depth in ((full, full_depth), (ORDER_SCOPE, order_depth)):
        spec = Spec(scope)
        states, capped = explore.bfs(spec, depth, ctx.tally, log=ctx.log)
        ctx.log("%s scope done: %d states" % (scope["name"], states))


def replay(case, t: Tally, verbose=False):
    spec = Spec(dict(FULL_THOROUGH, prefix=[]))
    s = spec.build()
    hist = []
    for a in case:
        spec.apply(s, a)
        hist.append(a)
        if verbose:
            print("  %-22s view=%s focus=%s signals=%s" % (a, spec.shown(s), s.v.focus.flow.id if s.v.focus.flow else None, s.rec.log))
        spec.check(s, hist, t)
