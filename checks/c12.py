"""C12 - mitmproxy's own error pages never reflect unescaped input, declare HTML, are framed.

Engine E on the real stack.  A *producer* is one way to make the real proxy core
(ProxyConnectionHandler -> HttpLayer -> Http1Server/Http2Server/HttpStream, driven
through World) answer with a page of its own: every `ValueError` site of the HTTP/1
request reader, `validate_request`/`validate_headers`, missing/invalid Host, CONNECT in
transparent mode, body_size_limit (both directions), connect failure with an
environment-chosen error text, every rejection site of the HTTP/1 response reader,
an upstream proxy refusing CONNECT, proxy authentication.  Each producer is run with a
markup payload in the one attacker-controlled position it has, for GET / HEAD / POST,
with and without a pipelined follower; HTTP/2 clients (hyper-h2 peer) get the producers
that can answer on a stream.

The page is judged by code that shares nothing with mitmproxy: `http1ref` for framing,
hyper-h2 for HTTP/2 decoding, the standard library's `html.parser` for the markup.
"""
from __future__ import annotations

import html
from html.parser import HTMLParser

from vmc import par
from vmc.drivers.h2world import H2World
from vmc.drivers.world import World
from vmc.refs import http1ref
from vmc.tally import Tally

META = {
    "level": "exploration",
    "technique": "bounded-exhaustive enumeration of (error-page producer x payload x position x method x follower) on the real proxy core (virtual event loop), pages judged by an independent HTML tokenizer, http1ref and hyper-h2",
    "claim": "for every way the HTTP core (and the proxyauth addon) answers with a page of its own and every markup payload placed in the attacker-controlled position of that way, the page contains only the template's tags, every reflected byte is HTML-escaped, the response declares text/html, and on HTTP/1 the client's byte stream, read by a strict reader in the context of the request method, is a complete Content-Length framed response with nothing after a page that declares Connection: close",
    "rule": "a case is (protocol, producer, payload, method, follower); distinct = distinct tuple; non-trivial = mitmproxy answered with a page of its own (counted separately: pages that actually reflect the payload marker)",
    "assumptions": [
        "client bytes arrive in one segment (segmentation independence is C02)",
        "TLS-layer error texts are represented by the environment-chosen connect error text (the text takes the same path: OpenConnection error -> CONNECT_FAILED page)",
        "the 502 answer to a failed CONNECT (Response.make with a text body and no Content-Type) is not an HTML page and is only recorded",
        "HTTP/3 error pages share format_error with HTTP/2 and are not driven (no QUIC peer)",
    ],
}

MARK = b"zq"
PAYLOADS = {
    "plain": b"zqplain",
    "script": b"zq<script>x</script>",
    "attr": b'zq"><img src=x>',
    "amp": b"zq&amp;",
    "apos": b"zq'",
    "nonascii": "zqé<b>".encode("utf-8"),
    "crlf": b"zq\r\n<i>",
    # characters that are not markup but *become* markup under compatibility / canonical folding, and byte sequences
    # that a lenient decoder turns into markup: harmless as long as the page is emitted as what html.escape saw
    "fullwidth": "zq＜script＞x＜/script＞".encode("utf-8"),  # U+FF1C / U+FF1E
    "smallform": "zq﹤img src=x﹥".encode("utf-8"),  # U+FE64 / U+FE65
    "fw_amp_quotes": "zq＆x＂y＇".encode("utf-8"),  # U+FF06, U+FF02, U+FF07
    "decomposing": "zq≮b≯".encode("utf-8"),  # U+226E / U+226F decompose canonically to < / > + U+0338
    "overlong": b"zq\xc0\xbcscript\xc0\xbe",  # overlong (invalid) UTF-8 encodings of < and >
    "bad_utf8": b"zq\xff<b>\xfe",
}
FOLDING_PAYLOADS = ("fullwidth", "smallform", "fw_amp_quotes", "decomposing", "overlong", "bad_utf8")
# markup that is already encoded in some other layer's notation: it must reach the page as the literal text it is
# (escaped once more where it contains `&`), never decoded
PAYLOADS.update({
    "percent": b"zq%3Cscript%3Ex%3C%2Fscript%3E",
    "percent_amp_quot": b"zq%26lt%3Bb%26gt%3B%22%27",
    "percent_double": b"zq%253Cb%253E",
    "entity": b"zq&lt;script&gt;x&lt;/script&gt;",
    "entity_numeric": b"zq&#60;b&#x3e;&#0060;",
    "entity_double": b"zq&amp;lt;b&amp;gt;",
    "plus_and_u": b"zq+%u003Cb%u003E+\\u003cb\\x3e",
})
ENCODED_PAYLOADS = ("percent", "percent_amp_quot", "percent_double", "entity", "entity_numeric", "entity_double", "plus_and_u")
# payloads whose reflection is checked literally (ASCII, no quotes or blanks that repr() would change)
LITERAL_PAYLOADS = ("plain", "amp", "percent", "percent_amp_quot", "percent_double", "entity", "entity_numeric", "entity_double")
TEMPLATE_TAGS = ["html", "head", "title", "/title", "/head", "body", "h1", "/h1", "p", "/p", "/body", "/html"]
ALLOWED_REFS = {"&amp;", "&lt;", "&gt;", "&quot;", "&#x27;", "&#39;"}

REQ_OK = b"%s http://example.com/ok HTTP/1.1\r\nHost: example.com\r\n%s\r\n%s"


def _req(method, target=b"http://example.com/a", version=b"HTTP/1.1", extra=(), host=b"example.com", body=True):
    lines = [method + b" " + target + b" " + version]
    if host is not None:
        lines.append(b"Host: " + host)
    lines += list(extra)
    b = b""
    if method == b"POST" and body and not any(x.lower().startswith((b"content-length", b"transfer-encoding")) for x in extra):
        lines.append(b"Content-Length: 3")
        b = b"abc"
    return b"\r\n".join(lines) + b"\r\n\r\n" + b


def _srv(*segs, eof=False):
    return {"server": list(segs), "server_eof": eof}


# Each producer: (P, method) -> scenario dict.  Keys: mode, opts, addons, client (bytes), connect ("ok" | ("fail", text)),
# server (segments the first upstream sends once a request reached it), server_eof, crlf_ok, first_line_method
def _prods():
    p = {}
    # ---- request line ------------------------------------------------------------------------------------------------
    p["rl_extra_token"] = lambda P, m: {"client": _req(m, version=b"HTTP/1.1 " + P)}
    p["rl_version"] = lambda P, m: {"client": _req(m, version=b"HTTP/" + P)}
    p["rl_target"] = lambda P, m: {"client": _req(m, target=P)}
    p["rl_authority"] = lambda P, m: {"client": _req(m, target=b"http://" + P + b"/a")}
    p["rl_scheme"] = lambda P, m: {"client": _req(m, target=P + b"://example.com/a")}
    p["rl_port"] = lambda P, m: {"client": _req(m, target=b"http://example.com:" + P + b"/a")}
    p["rl_connect_authority"] = lambda P, m: {"client": b"CONNECT " + P + b" HTTP/1.1\r\nHost: x\r\n\r\n", "method": b"CONNECT"}
    # ---- header section ----------------------------------------------------------------------------------------------
    p["hdr_no_colon"] = lambda P, m: {"client": _req(m, extra=[P])}
    p["hdr_empty_name"] = lambda P, m: {"client": _req(m, extra=[b": " + P])}
    p["hdr_name"] = lambda P, m: {"client": _req(m, extra=[P + b": v"])}
    p["hdr_leading_fold"] = lambda P, m: {"client": m + b" http://example.com/a HTTP/1.1\r\n " + P + b"\r\nHost: example.com\r\n\r\n"}
    p["cl_value"] = lambda P, m: {"client": _req(m, extra=[b"Content-Length: " + P])}
    p["cl_multi"] = lambda P, m: {"client": _req(m, extra=[b"Content-Length: 3", b"Content-Length: " + P])}
    p["te_value"] = lambda P, m: {"client": _req(m, extra=[b"Transfer-Encoding: " + P])}
    p["te_multi"] = lambda P, m: {"client": _req(m, extra=[b"Transfer-Encoding: chunked", b"Transfer-Encoding: " + P])}
    p["te_and_cl"] = lambda P, m: {"client": _req(m, extra=[b"Transfer-Encoding: chunked", b"Content-Length: 3", b"X-P: " + P]) + b"0\r\n\r\n"}
    p["te_http10"] = lambda P, m: {"client": _req(m, version=b"HTTP/1.0", extra=[b"Transfer-Encoding: chunked", b"X-P: " + P]) + b"0\r\n\r\n"}
    p["te_identity_request"] = lambda P, m: {"client": _req(m, extra=[b"Transfer-Encoding: identity", b"X-P: " + P])}
    p["host_value"] = lambda P, m: {"client": _req(m, target=b"/a", host=P)}
    p["no_host"] = lambda P, m: {"client": _req(m, target=b"/" + P.replace(b" ", b"+").replace(b"\r\n", b""), host=None)}
    p["connect_in_transparent"] = lambda P, m: {"mode": "transparent", "client": b"CONNECT example.com:443 HTTP/1.1\r\nHost: example.com:443\r\nX-P: " + P + b"\r\n\r\n", "method": b"CONNECT"}
    p["req_too_large"] = lambda P, m: {"opts": {"body_size_limit": "5"}, "client": _req(m, extra=[b"X-P: " + P, b"Content-Length: 9"], body=False) + b"abcdefghi"}
    p["req_too_large_chunked"] = lambda P, m: {"opts": {"body_size_limit": "5"}, "client": _req(m, extra=[b"X-P: " + P, b"Transfer-Encoding: chunked"], body=False) + b"9\r\nabcdefghi\r\n0\r\n\r\n"}
    p["req_chunk_size"] = lambda P, m: {"client": _req(m, extra=[b"Transfer-Encoding: chunked"], body=False) + P + b"\r\nabc\r\n0\r\n\r\n"}
    # ---- upstream side -----------------------------------------------------------------------------------------------
    p["connect_fail"] = lambda P, m: {"client": _req(m), "connect": ("fail", P.decode("utf-8", "surrogateescape")), "crlf_ok": True}
    p["resp_status"] = lambda P, m: {"client": _req(m), **_srv(b"HTTP/1.1 " + P + b"\r\n\r\n")}
    p["resp_version"] = lambda P, m: {"client": _req(m), **_srv(P + b" 200 OK\r\n\r\n")}
    p["resp_hdr_no_colon"] = lambda P, m: {"client": _req(m), **_srv(b"HTTP/1.1 200 OK\r\n" + P + b"\r\n\r\n")}
    p["resp_hdr_name"] = lambda P, m: {"client": _req(m), **_srv(b"HTTP/1.1 200 OK\r\n" + P + b": v\r\nContent-Length: 0\r\n\r\n")}
    p["resp_cl_value"] = lambda P, m: {"client": _req(m), **_srv(b"HTTP/1.1 200 OK\r\nContent-Length: " + P + b"\r\n\r\n")}
    p["resp_cl_multi"] = lambda P, m: {"client": _req(m), **_srv(b"HTTP/1.1 200 OK\r\nContent-Length: 0\r\nContent-Length: " + P + b"\r\n\r\n")}
    p["resp_te_value"] = lambda P, m: {"client": _req(m), **_srv(b"HTTP/1.1 200 OK\r\nTransfer-Encoding: " + P + b"\r\n\r\n")}
    p["resp_te_and_cl"] = lambda P, m: {"client": _req(m), **_srv(b"HTTP/1.1 200 OK\r\nTransfer-Encoding: chunked\r\nContent-Length: 3\r\nX-P: " + P + b"\r\n\r\n0\r\n\r\n")}
    p["resp_garbage_then_close"] = lambda P, m: {"client": _req(m), **_srv(P, eof=True), "crlf_ok": True}
    p["resp_close"] = lambda P, m: {"client": _req(m, extra=[b"X-P: " + P]), **_srv(eof=True)}
    p["resp_chunk_size"] = lambda P, m: {"client": _req(m), **_srv(b"HTTP/1.1 200 OK\r\nTransfer-Encoding: chunked\r\n\r\n" + P + b"\r\nabc\r\n0\r\n\r\n")}
    p["resp_too_large"] = lambda P, m: {"opts": {"body_size_limit": "5"}, "client": _req(m), **_srv(b"HTTP/1.1 200 OK\r\nX-P: " + P + b"\r\nContent-Length: 9\r\n\r\nabcdefghi")}
    p["resp_too_large_eof"] = lambda P, m: {"opts": {"body_size_limit": "5"}, "client": _req(m), **_srv(b"HTTP/1.1 200 OK\r\nX-P: " + P + b"\r\n\r\nabcdefghi", eof=True)}
    p["resp_short_then_close"] = lambda P, m: {"client": _req(m), **_srv(b"HTTP/1.1 200 OK\r\nX-P: " + P + b"\r\nContent-Length: 9\r\n\r\nabc", eof=True)}
    # ---- upstream proxy mode -----------------------------------------------------------------------------------------
    up = "upstream:http://proxy.test:8080"
    p["upstream_connect_refused"] = lambda P, m: {"mode": up, "client": _req(m, target=b"https://example.com/a"), **_srv(b"HTTP/1.1 403 " + P + b"\r\nContent-Length: 0\r\n\r\n")}
    p["upstream_connect_bad_line"] = lambda P, m: {"mode": up, "client": _req(m, target=b"https://example.com/a"), **_srv(P + b"\r\n\r\n")}
    p["upstream_connect_fail"] = lambda P, m: {"mode": up, "client": _req(m), "connect": ("fail", P.decode("utf-8", "surrogateescape")), "crlf_ok": True}
    # ---- tunnel / auth -----------------------------------------------------------------------------------------------
    p["connect_tunnel_fail"] = lambda P, m: {"client": b"CONNECT example.com:443 HTTP/1.1\r\nHost: example.com:443\r\n\r\n", "connect": ("fail", P.decode("utf-8", "surrogateescape")), "method": b"CONNECT", "crlf_ok": True}
    p["proxyauth_407"] = lambda P, m: {"proxyauth": True, "client": _req(m, extra=[b"Proxy-Authorization: Basic " + P])}
    # ---- control: no error at all ------------------------------------------------------------------------------------
    p["control_ok"] = lambda P, m: {"client": _req(m, extra=[b"X-P: " + P]), **_srv(b"HTTP/1.1 200 OK\r\nContent-Length: 0\r\n\r\n")}
    return p


PRODUCERS = _prods()
METHODS = [b"GET", b"HEAD", b"POST"]
FOLLOWER = b"GET http://example.com/second HTTP/1.1\r\nHost: example.com\r\n\r\n"


def _h2_fields(method, scheme=b"http", authority=b"example.com", path=b"/a", extra=()):
    f = [(b":method", method), (b":scheme", scheme), (b":path", path)]
    if authority is not None:
        f.insert(2, (b":authority", authority))
    return f + list(extra)


def _h2prods():
    p = {}
    p["h2_scheme"] = lambda P, m: {"fields": _h2_fields(m, scheme=P)}
    p["h2_authority"] = lambda P, m: {"fields": _h2_fields(m, authority=P)}
    p["h2_no_authority"] = lambda P, m: {"fields": _h2_fields(m, authority=None, extra=[(b"x-p", P)])}
    p["h2_host_header_value"] = lambda P, m: {"fields": _h2_fields(m, authority=None, extra=[(b"host", P)])}
    p["h2_hdr_name"] = lambda P, m: {"fields": _h2_fields(m, extra=[(P.lower(), b"v")])}
    p["h2_hdr_name_novalidate_peer"] = lambda P, m: {"fields": _h2_fields(m, extra=[(P, b"v")])}
    p["h2_cl_value"] = lambda P, m: {"fields": _h2_fields(m, extra=[(b"content-length", P)])}
    p["h2_te_value"] = lambda P, m: {"fields": _h2_fields(m, extra=[(b"transfer-encoding", P)])}
    p["h2_cl_multi"] = lambda P, m: {"fields": _h2_fields(m, extra=[(b"content-length", b"3"), (b"content-length", P)]), "body": b"abc"}
    p["h2_connect_in_transparent"] = lambda P, m: {"http_mode": "transparent", "fields": [(b":method", b"CONNECT"), (b":authority", b"example.com:443"), (b"x-p", P)]}
    p["h2_req_too_large"] = lambda P, m: {"opts": {"body_size_limit": "5"}, "fields": _h2_fields(b"POST", extra=[(b"x-p", P), (b"content-length", b"9")]), "body": b"abcdefghi"}
    p["h2_req_too_large_late"] = lambda P, m: {"opts": {"body_size_limit": "5"}, "fields": _h2_fields(b"POST", extra=[(b"x-p", P)]), "body": b"abcdefghi"}
    p["h2_connect_fail"] = lambda P, m: {"fields": _h2_fields(m), "connect": ("fail", P.decode("utf-8", "surrogateescape")), "crlf_ok": True}
    p["h2_resp_status"] = lambda P, m: {"fields": _h2_fields(m), **_srv(b"HTTP/1.1 " + P + b"\r\n\r\n")}
    p["h2_resp_hdr_name"] = lambda P, m: {"fields": _h2_fields(m), **_srv(b"HTTP/1.1 200 OK\r\n" + P + b": v\r\nContent-Length: 0\r\n\r\n")}
    p["h2_resp_cl_value"] = lambda P, m: {"fields": _h2_fields(m), **_srv(b"HTTP/1.1 200 OK\r\nContent-Length: " + P + b"\r\n\r\n")}
    p["h2_resp_garbage_then_close"] = lambda P, m: {"fields": _h2_fields(m), **_srv(P, eof=True), "crlf_ok": True}
    p["h2_resp_too_large"] = lambda P, m: {"opts": {"body_size_limit": "5"}, "fields": _h2_fields(m), **_srv(b"HTTP/1.1 200 OK\r\nX-P: " + P + b"\r\nContent-Length: 9\r\n\r\nabcdefghi")}
    p["h2_transparent_resp_status"] = lambda P, m: {"http_mode": "transparent", "fields": _h2_fields(m), **_srv(b"HTTP/1.1 " + P + b"\r\n\r\n")}
    p["h2_control_ok"] = lambda P, m: {"fields": _h2_fields(m, extra=[(b"x-p", P)]), **_srv(b"HTTP/1.1 200 OK\r\nContent-Length: 0\r\n\r\n")}
    return p


H2_PRODUCERS = _h2prods()


# ------------------------------------------------------------------------------------------------ the page oracle
class _Page(HTMLParser):
    def __init__(self):
        super().__init__(convert_charrefs=False)
        self.tags = []
        self.other = []
        self.stack = []
        self.text = {}  # element name -> raw text (entity references kept verbatim)
        self.refs = []
        self.stray = []

    def _add(self, s):
        k = self.stack[-1] if self.stack else "(top)"
        self.text[k] = self.text.get(k, "") + s

    def handle_starttag(self, tag, attrs):
        self.tags.append(tag + ("+attrs" if attrs else ""))
        self.stack.append(tag)

    def handle_startendtag(self, tag, attrs):
        self.tags.append(tag + "/")

    def handle_endtag(self, tag):
        self.tags.append("/" + tag)
        if tag in self.stack:
            while self.stack and self.stack.pop() != tag:
                pass

    def handle_data(self, d):
        self._add(d)
        for ch in "<>&":
            if ch in d:
                self.stray.append(ch)

    def handle_entityref(self, name):
        self.refs.append("&%s;" % name)
        self._add("&%s;" % name)

    def handle_charref(self, name):
        self.refs.append("&#%s;" % name)
        self._add("&#%s;" % name)

    def handle_comment(self, d):
        self.other.append("comment")

    def handle_decl(self, d):
        self.other.append("decl")

    def handle_pi(self, d):
        self.other.append("pi")

    def unknown_decl(self, d):
        self.other.append("unknown_decl")


def judge_page(t: Tally, feats, case, status, body: bytes, payload: bytes):
    """clauses about the markup of one page; returns True if the payload marker is reflected.
    What is judged are the bytes on the wire.  The pages declare no charset, so a reader may take them as UTF-8 or
    as a single-byte ASCII superset: both readings are tokenised (markup characters are ASCII in either)."""
    readings = []
    try:
        readings.append(("utf-8", body.decode("utf-8")))
    except UnicodeDecodeError:
        readings.append(("utf-8/replace", body.decode("utf-8", "replace")))
    readings.append(("latin-1", body.decode("latin-1")))
    pages = []
    for name, txt in readings:
        p_ = _Page()
        p_.feed(txt)
        p_.close()
        pages.append((name, p_))
    text = readings[0][1]
    pg = pages[0][1]
    tag_faults = [(name, p_.tags[:30], p_.other) for name, p_ in pages if p_.tags != TEMPLATE_TAGS or p_.other]
    t.judge("only_template_tags", not tag_faults, feats, case, TEMPLATE_TAGS, {"read as / tags / other": tag_faults[:1], "body": body[:300]})
    problems = []
    for name, p_ in pages:
        bad_refs = [r for r in p_.refs if r not in ALLOWED_REFS]
        if p_.stray:
            problems.append(("raw markup character in text (read as %s)" % name, sorted(set(p_.stray))))
        if bad_refs:
            problems.append(("entity reference html.escape never produces (read as %s)" % name, bad_refs[:4]))
    # the headline must be the status, never input
    want = None
    for k in ("title", "h1"):
        got = pg.text.get(k, "").strip()
        if not got.startswith("%d " % status) or MARK.decode() in got:
            problems.append(("%s is not the status line" % k, got[:80]))
    # an input that already looks escaped must be escaped again: after un-escaping the page, the marker must still be
    # followed by the literal payload tail
    p_text = pg.text.get("p", "")
    plain = html.unescape(p_text)
    reflected = MARK.decode() in plain or MARK.decode() in html.unescape(text)
    if payload in [PAYLOADS[k] for k in LITERAL_PAYLOADS] and MARK.decode() in plain:
        # (compared case-insensitively: some positions, e.g. HTTP/2 field names, are lower-cased before they are shown)
        i = plain.index(MARK.decode())
        if not plain[i:].lower().startswith(payload.decode().lower()):
            problems.append(("encoded input is not shown literally (decoded or not escaped again)", plain[i:i + 40]))
    t.judge("payload_only_escaped", not problems, feats, case, "every reflected character escaped, refs in %s" % sorted(ALLOWED_REFS), {"problems": problems, "body": body[:300]})
    return reflected


def _is_html(fields):
    ct = [v for n, v in fields if n.lower() == b"content-type"]
    return len(ct) == 1 and ct[0].split(b";")[0].strip().lower() == b"text/html"


def _looks_like_page(body: bytes):
    return body.lstrip()[:5].lower() in (b"<html", b"<!doc")


# ------------------------------------------------------------------------------------------------ HTTP/1 cases
def run_h1(case, t: Tally, verbose=False):
    P = PAYLOADS[case["payload"]]
    method = case["method"]
    sc = PRODUCERS[case["producer"]](P, method)
    feats = {"proto": "h1", "producer": case["producer"], "payload": case["payload"], "method": sc.get("method", method).decode(), "follower": bool(case["follower"])}
    addons = []
    opts = dict(sc.get("opts") or {})
    if sc.get("proxyauth"):
        from mitmproxy.addons import proxyauth

        addons = [proxyauth.ProxyAuth()]
        opts["proxyauth"] = "any"
    w = World(mode=sc.get("mode", "regular"), opts=opts, addons=addons, master_key="c12-proxyauth" if addons else None)
    try:
        w.start()
        stream = sc["client"] + (FOLLOWER if case["follower"] else b"")
        w.client_send(stream)
        served = set()
        for _ in range(6):
            progressed = False
            for e in w.pending_connects():
                c = sc.get("connect", "ok")
                if c == "ok":
                    w.connect_ok(e)
                else:
                    w.connect_fail(e, c[1])
                progressed = True
            for e in w.servers:
                if e.state == "open" and id(e) not in served and e.w.data:
                    served.add(id(e))
                    for seg in sc.get("server", []):
                        w.server_send(e, seg)
                    if sc.get("server_eof", "server" not in sc):  # an upstream without a script closes
                        e.r.eof = True
                        w.server_eof(e)
                    progressed = True
            if not progressed:
                break
        down_before_close = w.client.w.data
        closed_before = w.client.w.closed
        w.close_out()
        down = w.client.w.data
        judge_h1(case, feats, sc, w, down, down_before_close, closed_before, P, t, verbose)
    finally:
        w.dispose()


def judge_h1(case, feats, sc, w, down, down_before, closed_before, P, t, verbose):
    method = sc.get("method", case["method"])
    methods = [method, b"GET"]
    msgs, verdict = http1ref.parse_responses(down, methods, eof=True)
    if verbose:
        print("client sent", sc["client"][:200], "\nclient got", down, "\nverdict", verdict, "closed before close-out", closed_before, "\nerrors", w.errors)
    # which of the responses are mitmproxy's own?  own = carries mitmproxy's Server header, or looks like an HTML page
    # although no upstream ever delivered a response head
    upstream_sent_head = any(seg.startswith(b"HTTP/1.1 200") for seg in sc.get("server", []))
    head_end = down.find(b"\r\n\r\n")
    first_head = down[: head_end if head_end >= 0 else len(down)]
    own_by_server = b"\r\nserver: mitmproxy" in first_head.lower()
    first_body = down[head_end + 4:] if head_end >= 0 else b""
    own = own_by_server or (not upstream_sent_head and _looks_like_page(first_body))
    if not own:
        kind = "no-page"
        if down and not upstream_sent_head and down[9:10] in (b"4", b"5"):
            kind = "own-non-html"
            t.add("own_non_html_answers")
        t.case(None, nontrivial=False)
        t.outcome([case["producer"], kind, down[:15]])
        return
    # ---- framing -----------------------------------------------------------------------------------------------------
    # origin: "core" = written by Http1Server's own error path (make_error_response), "addon" = an addon-made response
    # that went through the ordinary response path (proxyauth)
    feats = dict(feats, origin="core" if own_by_server else "addon")
    status = int(first_head[9:12]) if first_head[9:12].isdigit() else 0
    fields = []
    for line in first_head.split(b"\r\n")[1:]:
        n, _, v = line.partition(b":")
        fields.append((n, v.strip()))
    faults = []
    declared_close = any(n.lower() == b"connection" and v.lower() == b"close" for n, v in fields)
    if verdict != "ok":
        # what a strict reader sees: is it only because a body follows the head of a response that cannot have one?
        alt, alt_verdict = http1ref.parse_responses(down, [b"GET", b"GET"], eof=True)
        if method == b"HEAD" and alt_verdict == "ok":
            faults.append("body-in-response-to-HEAD")
        else:
            faults.append("malformed:" + verdict.split(":")[0])
    else:
        m = msgs[0]
        cl = [v for n, v in m["fields"] if n.lower() == b"content-length"]
        if method != b"HEAD" and (m["framing"] != "cl" or len(cl) != 1 or int(cl[0]) != len(m["body"])):
            faults.append("not-content-length-framed")
        if declared_close and len(msgs) != 1:
            faults.append("response-after-declared-close")
    if declared_close and down != down_before:
        faults.append("bytes-after-page")
    t.judge("h1_complete_and_framed", not faults, dict(feats, fault=faults[0] if faults else "-"), case,
            "a complete response framed by Content-Length == body, readable in the context of the request method; nothing after a page that declares Connection: close",
            {"faults": faults, "verdict": verdict, "to_client": down[:400]})
    # ---- content type ------------------------------------------------------------------------------------------------
    t.judge("content_type_html", _is_html(fields), feats, case, "Content-Type: text/html", [f for f in fields if f[0].lower() == b"content-type"] or "no Content-Type header")
    # ---- markup ------------------------------------------------------------------------------------------------------
    cl = [v for n, v in fields if n.lower() == b"content-length"]
    body = first_body[: int(cl[0])] if cl and cl[0].isdigit() else first_body
    if method == b"HEAD" and not first_body:
        # a correctly framed answer to HEAD has no content: there is no markup to judge
        t.ok("head_answer_without_content")
        reflected = False
    elif case["producer"] == "proxyauth_407":
        # its own small template; judged for escaping only (it has no <p> and no reflected text)
        pg = _Page()
        pg.feed(body.decode("utf-8", "replace"))
        t.judge("payload_only_escaped", not pg.stray and MARK.decode() not in body.decode("utf-8", "replace"), feats, case, None, body[:200])
        reflected = False
    else:
        reflected = judge_page(t, feats, case, status, body, P)
    if reflected:
        t.add("pages_reflecting_payload")
    t.case(case if (reflected and len(t.samples) < 3) else None, nontrivial=True, key=[case["producer"], case["payload"], case["method"], case["follower"], "h1"])
    t.outcome([case["producer"], status, reflected, faults])
    if w.errors:
        t.note("server logged: " + w.errors[0][:70])


# ------------------------------------------------------------------------------------------------ HTTP/2 cases
def run_h2(case, t: Tally, verbose=False):
    P = PAYLOADS[case["payload"]]
    method = case["method"]
    sc = H2_PRODUCERS[case["producer"]](P, method)
    feats = {"proto": "h2", "producer": case["producer"], "payload": case["payload"], "method": method.decode(), "validate": bool(case["validate"])}
    opts = dict(sc.get("opts") or {})
    if not case["validate"]:
        opts["validate_inbound_headers"] = False
    hw = H2World(sc.get("http_mode", "regular"), opts=opts)
    w = hw.w
    try:
        hw.start()
        body = sc.get("body")
        sid = hw.request(sc["fields"], end=body is None)
        if body is not None:
            hw.data(sid, body[:4])
            hw.data(sid, body[4:], end=True)
        served = set()
        for _ in range(6):
            progressed = False
            for e in w.pending_connects():
                c = sc.get("connect", "ok")
                if c == "ok":
                    w.connect_ok(e)
                else:
                    w.connect_fail(e, c[1])
                progressed = True
            for e in w.servers:
                if e.state == "open" and id(e) not in served and e.w.data:
                    served.add(id(e))
                    for seg in sc.get("server", []):
                        w.server_send(e, seg)
                    if sc.get("server_eof", "server" not in sc):
                        e.r.eof = True
                        w.server_eof(e)
                    progressed = True
            hw.sync()
            if not progressed:
                break
        st = dict(hw.stream(sid))
        hw.close_out()
        st_after = hw.stream(sid)
        if verbose:
            print("fields", sc["fields"], "\nstream", st, "\npeer error", hw.peer.conn_error, "goaway", hw.peer.terminated, "\nerrors", w.errors)
        hdrs = st["headers"]
        own = hdrs is not None and any(n == b"server" and v.startswith(b"mitmproxy") for n, v in hdrs)
        if not own:
            kind = "goaway" if hw.peer.terminated else ("reset" if st["reset"] is not None else ("relayed" if hdrs else "nothing"))
            t.case(None, nontrivial=False)
            t.outcome([case["producer"], kind])
            return
        status = int(dict(hdrs).get(b":status", b"0"))
        page = b"".join(st["data"])
        t.judge("h2_complete", st["ended"] and st["reset"] is None and hw.peer.conn_error is None and b"".join(st_after["data"]) == page,
                feats, case, "HEADERS + DATA with END_STREAM, accepted by hyper-h2", {"stream": st, "peer_error": hw.peer.conn_error})
        t.judge("content_type_html", _is_html(hdrs), feats, case, "content-type: text/html", hdrs)
        reflected = judge_page(t, feats, case, status, page, P)
        if reflected:
            t.add("pages_reflecting_payload")
        t.case(case if (reflected and len(t.samples) < 3) else None, nontrivial=True, key=[case["producer"], case["payload"], case["method"], case["validate"], "h2"])
        t.outcome([case["producer"], status, reflected])
    finally:
        hw.dispose()


# ------------------------------------------------------------------------------------------------ enumeration
def cases():
    out = []
    for prod in PRODUCERS:
        crlf_ok = bool(PRODUCERS[prod](b"x", b"GET").get("crlf_ok"))
        for pay in PAYLOADS:
            if pay == "crlf" and not crlf_ok:
                continue
            folding = pay in FOLDING_PAYLOADS or pay in ENCODED_PAYLOADS  # every position, but only GET without follower (the page does not depend on them)
            for m in (METHODS[:1] if folding else METHODS):
                for fol in ((False,) if folding else (False, True)):
                    out.append({"proto": "h1", "producer": prod, "payload": pay, "method": m, "follower": fol})
    for prod in H2_PRODUCERS:
        crlf_ok = bool(H2_PRODUCERS[prod](b"x", b"GET").get("crlf_ok"))
        for pay in PAYLOADS:
            if pay == "crlf" and not crlf_ok:
                continue
            for m in (METHODS[:1] if (pay in FOLDING_PAYLOADS or pay in ENCODED_PAYLOADS) else METHODS):
                for val in (True, False):
                    out.append({"proto": "h2", "producer": prod, "payload": pay, "method": m, "validate": val})
    return out


def run_case(case, t, verbose=False):
    case = dict(case)
    if isinstance(case["method"], str):
        case["method"] = case["method"].encode()
    if case["proto"] == "h1":
        run_h1(case, t, verbose)
    else:
        run_h2(case, t, verbose)


def chunk_fn(chunk):
    t = Tally()
    for c in chunk:
        run_case(c, t)
    return t


def run(ctx):
    cs = cases()
    ctx.bounds = {
        "h1_producers": list(PRODUCERS), "h2_producers": list(H2_PRODUCERS), "payloads": {k: v.decode("latin-1") for k, v in PAYLOADS.items()},
        "methods": [m.decode() for m in METHODS], "follower": [False, True], "h2_validate_inbound_headers": [True, False],
        "cases": len(cs), "note": "full product in both tiers",
    }
    ctx.log("%d cases (%d HTTP/1 producers, %d HTTP/2 producers)" % (len(cs), len(PRODUCERS), len(H2_PRODUCERS)))
    # the whole product costs ~10 s of CPU; measured on this (heavily shared) machine a forked pool is slower than
    # running it in-process, so it is dealt to at most 2 workers
    par.pmap_tally(chunk_fn, cs, ctx.tally, nchunks=2, nproc=2)
    t = ctx.tally
    ctx.log("own pages: %d, reflecting the payload marker: %d, non-html own answers: %d" % (
        len(t.nontrivial), t.extra.get("pages_reflecting_payload", 0), t.extra.get("own_non_html_answers", 0)))


def replay(case, t, verbose=False):
    run_case(case, t, verbose=verbose)
