"""tools/seedrecord.py <results.txt> - copy `SEED ...` lines printed by tools/seedcheck.sh into seeded/<id>/meta.json
(key "confirmation": what the main session ran itself and observed) and rewrite seeded/RESULTS.md."""
import glob
import json
import os
import re
import subprocess
import sys

ROOT = os.path.dirname(os.path.dirname(os.path.abspath(__file__)))
head = subprocess.check_output(["git", "-C", "/repo", "log", "--format=%h", "-1"], text=True).strip()
for line in open(sys.argv[1]):
    m = re.match(r"SEED (\S+) (\S+) demo_without=(\d+) demo_with=(\d+) baseline=(\S+) check_exit=(\d+) violations=(\d+) :: ?(.*)", line)
    if not m:
        continue
    pid, sid, dwo, dw, base, rc, nv, first = m.groups()
    p = os.path.join(ROOT, "seeded", sid, "meta.json")
    if not os.path.exists(p):
        continue
    meta = json.load(open(p))
    meta["confirmation"] = {
        "ran": "tools/seedcheck.sh seeded/%s quick (scratch worktree of /repo at %s: demo without patch, demo with patch, full pinned suite with patch, ./check %s --tier quick with VERIF_REPO=<worktree>)" % (sid, head, pid),
        "demo_passes_without_patch": dwo == "0",
        "demo_fails_with_patch": dw != "0",
        "repo_suite_with_patch": base,
        "check_exit": int(rc),
        "violation_lines": int(nv),
        "first_violation": first.strip(),
        "detected": rc == "1" and int(nv) > 0,
    }
    json.dump(meta, open(p, "w"), indent=1, ensure_ascii=False)
rows = []
for p in sorted(glob.glob(os.path.join(ROOT, "seeded", "*", "meta.json"))):
    meta = json.load(open(p))
    c = meta.get("confirmation")
    if not c:
        continue
    rows.append("| %s | %s | %s | %s | %s | %s |" % (os.path.basename(os.path.dirname(p)), meta.get("property"), (meta.get("summary") or "").replace("|", "/")[:160],
                                                  "yes" if c["demo_fails_with_patch"] and c["demo_passes_without_patch"] else "NO", c["repo_suite_with_patch"], "DETECTED" if c["detected"] else "missed"))
open(os.path.join(ROOT, "seeded", "RESULTS.md"), "w").write(
    "# Seeded changes (written by sub-agents that saw only the property text)\n\n| id | property | change | demo fails with / passes without | repo suite with patch | quick check |\n|---|---|---|---|---|---|\n" + "\n".join(rows) + "\n")
print(len(rows), "seeded changes recorded;", sum("DETECTED" in r for r in rows), "detected")
