"""C07 - body_size_limit is enforced, streamed bodies are relayed exactly and unbuffered.

Engine E on the real stack (ProxyConnectionHandler -> HttpLayer -> HttpStream ->
Http1Server/Http2Server -> Http1Client, driven through World; HTTP/2 clients through the
hyper-h2 peer).  One case = direction x client protocol x framing x body_size_limit x
stream_large_bodies x store_streamed_bodies x addon `.stream` value x body size x chunking
(every composition of the body into <= k parts; a part is one received chunk: a TCP
segment of a Content-Length body, one HTTP/1 chunk, one HTTP/2 DATA frame).

The oracle is a 25-line reference of the *statement* (known size = Content-Length or
bytes buffered so far; abort first, then stream) evaluated on the chunk list; the
observations are taken from outside: bytes on the mock sockets read by http1ref / hyper-h2,
the error hook, and - for the memory clauses only - len() of the stream's body buffers
after every delivered chunk.
"""
from __future__ import annotations

from mitmproxy import http
from mitmproxy.proxy.layers.http import HttpStream

from vmc import par
from vmc.drivers import h1
from vmc.drivers.h2world import H2World
from vmc.drivers.world import World
from vmc.refs import http1ref
from vmc.tally import Tally

META = {
    "level": "exploration",
    "technique": "bounded-exhaustive enumeration of (direction x protocol x framing x limit x stream threshold x store x addon stream value x size x chunking) on the real proxy core, compared with a reference of the statement; bytes judged by http1ref / hyper-h2",
    "claim": "for every enumerated configuration, size around the thresholds and chunking: a body known to exceed body_size_limit ends in an error for flow and client with nothing of the message forwarded and never more than limit + one chunk buffered; a streamed body reaches the peer chunk by chunk, byte-exact after the addon transformation, with an empty body buffer, and is kept on the flow iff store_streamed_bodies",
    "rule": "a case is the tuple above; distinct = distinct tuple; non-trivial = the reference predicts an abort or streaming (a threshold or an addon stream value is in play)",
    "assumptions": [
        "hooks complete immediately (data queued behind a suspended hook is C10/C11's subject)",
        "a streamed body whose total is unknown in advance is not required to be cut at the limit (statement: 'known to exceed')",
        "length-changing stream callables are only combined with framings that can carry a different length (chunked, read-until-close, HTTP/2)",
        "with store_streamed_bodies the stored copy is exempt from the memory bound (the statement lets the flow keep streamed bytes then)",
        "HTTP/2 on the client side only; upstream is always HTTP/1",
    ],
}

ALPHA = b"abcdefghijklmnopqrstuvwxyz"
# addon `.stream` values: nothing, True, bytes -> bytes, bytes -> list (may contain b""), hold back until the end,
# length-changing, bytes -> generator (one-shot), bytes -> iterator (one-shot)
ADDONS = ("none", "true", "upper", "list", "buffer", "bracket", "gen", "iter")
SIZES = {"-": None, "3": 3, "5": 5, "8": 8, "1k": 1024}

# ---------------------------------------------------------------------------------------------- instrumentation (read-only)
_STREAMS: list = []
_orig_init = HttpStream.__init__


def _init(self, *a, **k):
    _orig_init(self, *a, **k)
    _STREAMS.append(self)


HttpStream.__init__ = _init


# ---------------------------------------------------------------------------------------------- addon stream values
class _Buffer:
    def __init__(self):
        self.acc = []

    def __call__(self, c):
        if c:
            self.acc.append(c)
            return b""
        return b"".join(self.acc)


def make_stream(kind):
    if kind == "true":
        return True
    if kind == "upper":
        return lambda c: c.upper()
    if kind == "list":
        return lambda c: [c[:1], c[1:]]
    if kind == "gen":
        # a one-shot iterable (generator) of the non-empty halves: a legal Iterable[bytes] that can be walked only once
        return lambda c: (p for p in (c[:1], c[1:]) if p)
    if kind == "iter":
        return lambda c: iter([c] if c else [])
    if kind == "buffer":
        return _Buffer()
    if kind == "bracket":
        return lambda c: (b"[" + c + b"]") if c else b""
    raise AssertionError(kind)


def pieces_of(kind, chunks):
    """reference: the pieces the peer must receive, per received chunk, plus the flush at end of message"""
    if kind in ("none", "true"):
        return [[c] for c in chunks], []
    f = make_stream(kind)
    per = []
    for c in chunks:
        r = f(c)
        per.append([r] if isinstance(r, bytes) else list(r))
    r = f(b"")
    flush = ([] if r == b"" else [r]) if isinstance(r, bytes) else list(r)
    return per, flush


# ---------------------------------------------------------------------------------------------- reference of the statement
def reference(case):
    """-> dict(abort: None|'headers'|i, stream_from: None|'headers'|i, chunks)"""
    L, S = SIZES[case["L"]], SIZES[case["S"]]
    chunks = received_chunks(case)
    n = sum(case["parts"])
    known = n if case["framing"] in ("cl", "h2cl") else None
    out = {"abort": None, "stream_from": None, "chunks": chunks, "kind": "true"}
    if known is not None and known > 0:
        if L is not None and known > L:
            out["abort"] = "headers"
            return out
        if S is not None and known > S:
            out["stream_from"] = "headers"
    if n == 0 and case["framing"] not in ("chunked", "eof"):
        # the head already says that there is no body: nothing to abort, nothing to stream
        out["stream_from"] = None
        return out
    if case["addon"] != "none":
        out["stream_from"] = "headers"
        out["kind"] = case["addon"]
        return out
    if out["stream_from"] is not None:
        return out
    total = 0
    for i, c in enumerate(chunks):
        total += len(c)
        if L is not None and total > L:
            out["abort"] = i
            return out
        if S is not None and total > S:
            out["stream_from"] = i
            return out
    return out


def body_of(case):
    n = sum(case["parts"])
    return (ALPHA * (n // len(ALPHA) + 1))[:n]


def received_chunks(case):
    body = body_of(case)
    out, pos = [], 0
    for p in case["parts"]:
        out.append(body[pos:pos + p])
        pos += p
    if case.get("coalesce") and case["framing"] in ("cl", "eof") and out:
        return [body]
    return out


# ---------------------------------------------------------------------------------------------- helpers
def partial_body(data: bytes, skip_interim=True):
    """lenient reader for observations while a message is still in flight: (head|None, body so far)"""
    while True:
        i = data.find(b"\r\n\r\n")
        if i < 0:
            return None, b""
        head, rest = data[:i], data[i + 4:]
        if skip_interim and head.startswith(b"HTTP/1.1 1"):
            data = rest
            continue
        break
    hl = head.lower()
    te = [ln.split(b":", 1)[1].strip() for ln in hl.split(b"\r\n")[1:] if ln.startswith(b"transfer-encoding:")]
    if te and te[-1].split(b",")[-1].strip() == b"chunked":
        body, pos = b"", 0
        while True:
            j = rest.find(b"\r\n", pos)
            if j < 0:
                break
            try:
                k = int(rest[pos:j].split(b";")[0], 16)
            except ValueError:
                break
            if k == 0 or len(rest) < j + 2 + k:
                break
            body += rest[j + 2:j + 2 + k]
            pos = j + 2 + k + 2
        return head, body
    for line in hl.split(b"\r\n"):
        if line.startswith(b"content-length:"):
            try:
                return head, rest[: int(line.split(b":")[1])]
            except ValueError:
                return head, rest
    return head, rest


def feats_of(case, ref):
    per, flush = pieces_of(ref["kind"], ref["chunks"]) if ref["stream_from"] is not None else ([], [])
    emits_empty = any(p == b"" for ps in per for p in ps) or any(p == b"" for p in flush)
    if ref["abort"] is not None:
        phase = "abort_early" if ref["abort"] == "headers" else "abort_late"
    elif ref["stream_from"] is not None:
        phase = "stream_early" if ref["stream_from"] == "headers" else "stream_late"
    else:
        phase = "buffered"
    return {"dir": case["dir"], "proto": case["proto"], "framing": case["framing"], "L": case["L"], "S": case["S"],
            "store": bool(case["store"]), "addon": case["addon"], "phase": phase, "emits_empty_piece": emits_empty,
            "expect100": bool(case.get("expect")), "client_window": "small" if case.get("window") else "default",
            "te_spelling": case.get("te", "chunked") if case["framing"] == "chunked" else "-"}


def make_policy(case):
    hook = "requestheaders" if case["dir"] == "req" else "responseheaders"

    def policy(name, data, world):
        if name == hook and case["addon"] != "none" and isinstance(data, http.HTTPFlow):
            msg = data.request if case["dir"] == "req" else data.response
            msg.stream = make_stream(case["addon"])

    return policy


def opts_of(case):
    o = {"store_streamed_bodies": bool(case["store"])}
    if case["L"] != "-":
        o["body_size_limit"] = case["L"]
    if case["S"] != "-":
        o["stream_large_bodies"] = case["S"]
    return o


class Obs:
    """what is seen from outside after each delivered chunk"""

    def __init__(self):
        self.buf = []  # len of the body buffer
        self.peer = []  # peer's body so far (None if the head has not arrived)

    def take(self, case, peer_body):
        st = _STREAMS[-1] if _STREAMS else None
        if st is None:
            self.buf.append(0)
        else:
            self.buf.append(len(st.request_body_buf if case["dir"] == "req" else st.response_body_buf))
        self.peer.append(peer_body)


RESP_OK = b"HTTP/1.1 200 OK\r\nContent-Length: 2\r\n\r\nok"


# ---------------------------------------------------------------------------------------------- drivers
def run_case(case, t: Tally, verbose=False):
    del _STREAMS[:]
    ref = reference(case)
    feats = feats_of(case, ref)
    if case["proto"] == "h1":
        res = drive_h1(case, ref)
    else:
        res = drive_h2(case, ref)
    judge(case, ref, feats, res, t, verbose)


TE_SPELLINGS = {"chunked": b"chunked", "Chunked": b"Chunked", "CHUNKED": b"CHUNKED", "gzip,chunked": b"gzip, chunked", "ows": b"chunked "}


def _te(case):
    """the Transfer-Encoding field as the sender spells it (coding names are case-insensitive, RFC 9112 7)"""
    return b"Transfer-Encoding: " + TE_SPELLINGS[case.get("te", "chunked")] + b"\r\n"


def _h1_frames(case):
    """the byte segments that carry the body parts, and the terminator"""
    chunks = []
    body = body_of(case)
    pos = 0
    for p in case["parts"]:
        c = body[pos:pos + p]
        pos += p
        chunks.append(b"%x\r\n%s\r\n" % (len(c), c) if case["framing"] == "chunked" else c)
    term = b"0\r\n\r\n" if case["framing"] == "chunked" else b""
    return chunks, term


def _connect_all(w):
    """every upstream connect succeeds (resolved by the environment, one loop turn after it was requested)"""
    for _ in range(4):
        pend = w.pending_connects()
        if not pend:
            break
        for e in pend:
            w.connect_ok(e)


def _csend(w, data):
    w.client_send(data)
    _connect_all(w)


def drive_h1(case, ref):
    w = World(mode="regular", opts=opts_of(case), policy=make_policy(case), snap=h1.http_snap)
    obs = Obs()
    n = sum(case["parts"])
    res = {"obs": obs}
    try:
        w.start()
        segs, term = _h1_frames(case)
        if case["dir"] == "req":
            fr = {"cl": b"Content-Length: %d\r\n" % n, "chunked": _te(case)}[case["framing"]]
            head = b"POST http://example.com/u HTTP/1.1\r\nHost: example.com\r\n" + fr + (b"Expect: 100-continue\r\n" if case.get("expect") else b"") + b"\r\n"

            def peer():
                if not w.servers:
                    return None
                hd, b = partial_body(w.servers[0].w.data)
                return b if hd is not None else None

            if case.get("coalesce"):
                _csend(w, head + b"".join(segs) + term)
                obs.take(case, peer())
            else:
                _csend(w, head)
                for s in segs:
                    if w.client.w.closed:
                        break
                    _csend(w, s)
                    obs.take(case, peer())
                if term and not w.client.w.closed:
                    _csend(w, term)
            h1.pump(w)
        else:
            _csend(w, b"GET http://example.com/d HTTP/1.1\r\nHost: example.com\r\n\r\n")
            e = w.servers[0]
            fr = {"cl": b"Content-Length: %d\r\n" % n, "chunked": _te(case), "eof": b""}[case["framing"]]
            head = b"HTTP/1.1 200 OK\r\n" + fr + b"\r\n"

            def peer():
                hd, b = partial_body(w.client.w.data)
                return b if hd is not None and hd.startswith(b"HTTP/1.1 200") else None

            def alive():
                return not e.w.closed and not e.r.eof

            if case.get("coalesce"):
                w.server_send(e, head + b"".join(segs) + term)
                obs.take(case, peer())
            else:
                w.server_send(e, head)
                for s in segs:
                    if not alive():
                        break
                    w.server_send(e, s)
                    obs.take(case, peer())
                if term and alive():
                    w.server_send(e, term)
            if case["framing"] == "eof" and alive():
                e.r.eof = True
                w.server_eof(e)
        res["closed_before"] = w.client.w.closed
        w.close_out()
        res.update(client=w.client.w.data, client_closed=w.client.w.closed, servers=[s.w.data for s in w.servers],
                   hooks=[n_ for n_, _ in w.hooks], flows=[d for n_, d in w.hook_objs if isinstance(d, http.HTTPFlow)], errors=list(w.errors))
    finally:
        w.dispose()
    return res


def drive_h2(case, ref):
    win = case.get("window")  # [initial stream window of the HTTP/2 client, size of each later WINDOW_UPDATE]
    kw = {}
    if win:
        import h2.settings

        kw = dict(peer_settings={h2.settings.SettingCodes.INITIAL_WINDOW_SIZE: win[0]}, auto_release=False)
    hw = H2World("regular", opts=opts_of(case), policy=make_policy(case), snap=h1.http_snap, **kw)
    w = hw.w
    obs = Obs()
    n = sum(case["parts"])
    res = {"obs": obs}
    body = body_of(case)
    try:
        hw.start()
        if case["dir"] == "req":
            fields = [(b":method", b"POST"), (b":scheme", b"http"), (b":authority", b"example.com"), (b":path", b"/u")]
            if case["framing"] == "h2cl":
                fields.append((b"content-length", b"%d" % n))

            def peer():
                if not w.servers:
                    return None
                hd, b = partial_body(w.servers[0].w.data)
                return b if hd is not None else None

            sid = hw.request(fields, end=(n == 0))
            _connect_all(w)
            pos = 0
            for i, p in enumerate(case["parts"]):
                last = i == len(case["parts"]) - 1
                if not hw.data(sid, body[pos:pos + p], end=last):
                    break
                _connect_all(w)
                pos += p
                obs.take(case, peer())
            h1.pump(w)
            hw.sync()
        else:
            sid = hw.request([(b":method", b"GET"), (b":scheme", b"http"), (b":authority", b"example.com"), (b":path", b"/d")], end=True)
            _connect_all(w)
            e = w.servers[0]
            fr = {"cl": b"Content-Length: %d\r\n" % n, "chunked": _te(case), "eof": b""}[case["framing"]]
            segs, term = _h1_frames(case)

            def peer():
                hw.sync()
                st = hw.stream(sid)
                if st["headers"] is None or dict(st["headers"]).get(b":status") != b"200":
                    return None
                return b"".join(st["data"])

            def alive():
                return not e.w.closed and not e.r.eof

            w.server_send(e, b"HTTP/1.1 200 OK\r\n" + fr + b"\r\n")
            for s in segs:
                if not alive():
                    break
                w.server_send(e, s)
                obs.take(case, peer())
            if term and alive():
                w.server_send(e, term)
            if case["framing"] == "eof" and alive():
                e.r.eof = True
                w.server_eof(e)
            hw.sync()
            if win:
                # the whole response has arrived at the proxy; the client now re-opens its window step by step
                for _ in range(4 * n + 8):
                    st_ = hw.stream(sid)
                    if st_["ended"] or st_["reset"] is not None or hw.peer.conn_error:
                        break
                    if not hw.release_step(sid, win[1]):
                        break
        st = dict(hw.stream(sid))
        hw.close_out()
        res.update(h2=st, h2_error=hw.peer.conn_error, servers=[s.w.data for s in w.servers], hooks=[n_ for n_, _ in w.hooks],
                   flows=[d for n_, d in w.hook_objs if isinstance(d, http.HTTPFlow)], errors=list(w.errors))
    finally:
        hw.dispose()
    return res


# ---------------------------------------------------------------------------------------------- oracle
def judge(case, ref, feats, res, t: Tally, verbose):
    L = SIZES[case["L"]]
    chunks = ref["chunks"]
    obs = res["obs"]
    body = body_of(case)
    flows = res["flows"]
    flow = flows[0] if flows else None
    msg = None
    if flow is not None:
        msg = flow.request if case["dir"] == "req" else flow.response
    error_hook = "error" in res["hooks"]
    nontrivial = ref["abort"] is not None or ref["stream_from"] is not None
    t.case(case if (nontrivial and len(t.samples) < 3 and len(case["parts"]) > 1) else None, nontrivial=nontrivial, key=case)

    # ---- what did the two ends see? ---------------------------------------------------------------------------------
    if case["proto"] == "h1":
        cmsgs, cverdict = http1ref.parse_responses(res["client"], [b"POST" if case["dir"] == "req" else b"GET"], eof=res["client_closed"])
        finals = [m for m in cmsgs if not m["start"][1].startswith(b"1")]
        client_status = int(finals[0]["start"][1]) if finals else None
        client_body = finals[0]["body"] if finals else None
        client_ok = cverdict == "ok" and len(finals) == 1
        client_error = (client_status is not None and client_status >= 400) or (client_status is None and res["client_closed"])
        client_saw_200 = b"HTTP/1.1 200" in res["client"]
    else:
        st = res["h2"]
        hd = dict(st["headers"] or [])
        client_status = int(hd[b":status"]) if b":status" in hd else None
        client_body = b"".join(st["data"]) if st["headers"] is not None else None
        client_ok = st["ended"] and st["reset"] is None and res["h2_error"] is None
        client_error = (client_status is not None and client_status >= 400) or st["reset"] is not None
        client_saw_200 = client_status == 200
    up = b"".join(res["servers"])
    smsgs, sverdict = http1ref.parse_requests(up)
    if verbose:
        print("reference", {k: v for k, v in ref.items() if k != "chunks"}, "chunks", chunks)
        print("hooks", res["hooks"], "\nupstream got", up[:300], sverdict, "\nclient got", (res.get("client") or b"")[:300] if case["proto"] == "h1" else res["h2"])
        print("buffer after each chunk", obs.buf, "peer after each chunk", obs.peer, "\nflow.error", flow.error if flow else None,
              "content", msg.raw_content if msg is not None else None, "\nerrors", res["errors"])
    t.outcome([feats["phase"], client_status, sverdict, error_hook, len(smsgs)])

    # ---- memory bound (whenever a limit is set) ---------------------------------------------------------------------
    if L is not None:
        worst = None
        for j, b in enumerate(obs.buf):
            streaming = ref["stream_from"] is not None and (ref["stream_from"] == "headers" or j >= ref["stream_from"])
            if streaming and case["store"]:
                continue
            done = chunks[: j + 1] if not case.get("coalesce") else chunks
            bound = L + max([len(c) for c in done] or [0])
            if b > bound and worst is None:
                worst = (j, b, bound)
        t.judge("memory_bound", worst is None, feats, case, "len(body buffer) <= limit + one received chunk after every chunk", {"chunk_index,held,bound": worst, "held": obs.buf})

    # ---- abort ------------------------------------------------------------------------------------------------------
    if ref["abort"] is not None:
        problems = []
        if flow is None or flow.error is None:
            problems.append("flow.error not set")
        if not error_hook:
            problems.append("no error hook")
        if not client_error:
            problems.append(("client did not receive an error", client_status))
        if case["dir"] == "req":
            if up:
                problems.append(("bytes of the aborted request reached the upstream", up[:120]))
        else:
            if client_saw_200 or (client_body is not None and body[:4] and body[:4] in client_body):
                problems.append(("the oversized response reached the client", client_status))
        t.judge("limit_aborts", not problems, feats, case, "flow error + error hook, client gets an error, nothing of the message forwarded", problems)
        return

    # ---- no abort expected: the exchange completes ------------------------------------------------------------------
    per, flush = pieces_of(ref["kind"], chunks) if ref["stream_from"] is not None else ([[c] for c in chunks], [])
    expected = b"".join(p for ps in per for p in ps) + b"".join(flush)
    if ref["stream_from"] is None:
        expected = body
    if case["dir"] == "req" and case["framing"] == "h2":
        # An HTTP/2 request without content-length is written to the HTTP/1 upstream with neither Content-Length nor
        # chunked coding.  That is a translation defect (C06's subject: "one well-formed HTTP/1 message"); this
        # property only speaks about the bytes, so they are read as "everything after the head".
        hd, got_body = partial_body(up)
        got_ok = hd is not None
        if sverdict != "ok" and expected:
            t.note("h2 request without content-length forwarded to HTTP/1 upstream without any body framing (see C06)")
    elif case["dir"] == "req":
        got_ok = sverdict == "ok" and len(smsgs) == 1
        got_body = smsgs[0]["body"] if smsgs else None
    else:
        got_ok = client_ok and client_status == 200
        got_body = client_body
    problems = []
    if error_hook or (flow is not None and flow.error is not None):
        problems.append(("flow ended in an error although nothing exceeds the limit", flow.error.msg if flow is not None and flow.error else "error hook"))
    if not got_ok:
        problems.append(("peer did not receive one well-formed complete message", sverdict if case["dir"] == "req" else [client_status, res.get("h2_error")]))
    if got_body != expected:
        problems.append(("peer body differs", got_body[:80] if got_body is not None else None))
    clause = "stream_exact" if ref["stream_from"] is not None else "buffered_exact_within_limit"
    t.judge(clause, not problems, feats, case, {"body": expected[:80]}, {"problems": problems, "upstream": up[:200] if case["dir"] == "req" else None})

    if ref["stream_from"] is None:
        return
    # ---- streamed: relayed chunk by chunk, nothing held -------------------------------------------------------------
    start = 0 if ref["stream_from"] == "headers" else ref["stream_from"]
    held = [(j, b) for j, b in enumerate(obs.buf) if j >= start and b != 0]
    if not case["store"]:
        t.judge("not_buffered_while_streaming", not held, feats, case, "body buffer empty once streaming", {"held(chunk_index,len)": held[:4]})
    if ref["kind"] != "buffer" and not case.get("coalesce") and not case.get("window"):
        late = None
        for j in range(start, len(obs.peer)):
            want = b"".join(p for ps in per[: j + 1] for p in ps)
            if obs.peer[j] != want and late is None:
                late = (j, obs.peer[j], want)
        t.judge("relayed_chunk_by_chunk", late is None, feats, case, "after chunk j the peer holds the transformation of chunks 0..j", {"chunk_index,peer_has,want": late})
    # ---- kept iff store ---------------------------------------------------------------------------------------------
    kept = msg.raw_content if msg is not None else None
    if case["store"]:
        t.judge("kept_iff_store", kept == expected, feats, case, {"flow keeps": expected[:80]}, {"flow keeps": kept[:80] if kept is not None else None})
    else:
        t.judge("kept_iff_store", not kept, feats, case, "flow keeps no body", {"flow keeps": kept[:80] if kept else kept})


# ---------------------------------------------------------------------------------------------- enumeration
def compositions(n, kmax):
    if n == 0:
        return [[]]
    out = [[n]]
    if kmax >= 2:
        out += [[a, n - a] for a in range(1, n)]
    if kmax >= 3:
        out += [[a, b, n - a - b] for a in range(1, n) for b in range(1, n - a)]
    return out


def sizes_for(L, S):
    l, s = SIZES[L], SIZES[S]
    ns = {0, 1}
    if l == 1024:
        ns |= {1023, 1024, 1025, 2048}
        if s:
            ns |= {s, s + 1}
    else:
        if l:
            ns |= {l - 1, l, l + 1, 2 * l}
        if s:
            ns |= {s, s + 1}
        if not l and not s:
            ns |= {4}
    return sorted(ns)


def part_lists(n, kmax, marks=()):
    if n <= 6:
        return compositions(n, kmax)
    if n <= 12:
        # all 1- and 2-part compositions; 3-part ones whose first cut or second cut falls next to a threshold
        out = compositions(n, min(kmax, 2))
        if kmax >= 3:
            near = {m + d for m in marks for d in (-1, 0, 1)}
            out += [[a, b, n - a - b] for a in range(1, n) for b in range(1, n - a) if a in near or a + b in near]
        return out
    cand = [[n], [1, n - 1], [n - 1, 1], [n // 2, n - n // 2], [1000, n - 1000], [1024, n - 1024], [1, 1023, n - 1024], [512, 512, n - 1024]]
    out = []
    for c in cand:
        if all(p > 0 for p in c) and len(c) <= kmax and c not in out:
            out.append(c)
    return out


def cases(tier):
    kmax = 2 if tier == "quick" else 3
    out = []
    for d in ("req", "resp"):
        for proto in ("h1", "h2"):
            if d == "req":
                framings = ["cl", "chunked"] if proto == "h1" else ["h2cl", "h2"]
            else:
                framings = ["cl", "chunked", "eof"]
            for L in ("-", "5", "1k"):
                for S in ("-", "3", "8"):
                    for store in (False, True):
                        for addon in ADDONS:
                            if tier == "quick" and not _quick_keeps(proto, L, S, store, addon):
                                continue
                            for fr in framings:
                                if addon == "bracket" and fr in ("cl", "h2cl"):
                                    continue  # a length-changing callable needs a framing that can carry it
                                for n in sizes_for(L, S):
                                    pls = part_lists(n, kmax, [v for v in (SIZES[L], SIZES[S]) if v])
                                    if proto == "h2" and tier == "quick":
                                        pls = [p for p in pls if len(p) <= 1 or p[0] in (1, n - 1)]
                                    for parts in pls:
                                        base = {"dir": d, "proto": proto, "framing": fr, "L": L, "S": S, "store": store, "addon": addon, "parts": parts}
                                        out.append(base)
                                        variants = tier != "quick" or (addon in ("none", "buffer") and bool(parts) and parts[0] in (1, n - 1))
                                        if proto == "h1" and len(parts) >= 2 and variants:
                                            out.append(dict(base, coalesce=True))
                                        if proto == "h1" and d == "req" and addon in ("none", "true") and len(parts) <= 2 and variants:
                                            out.append(dict(base, expect=True))
    out += window_cases(tier)
    out += spelling_cases(tier)
    return out


def spelling_cases(tier):
    """chunked bodies whose Transfer-Encoding field is spelled differently (case, a preceding coding, trailing OWS):
    whatever the spelling, what the peer's HTTP/1 reader de-frames must be the body"""
    out = []
    full = tier != "quick"
    for d in ("req", "resp"):
        for proto in (("h1", "h2") if (full and d == "resp") else ("h1",)):
            for S in ("-", "3"):
                for store in ((False, True) if full else (False,)):
                    for addon in (("none", "true", "upper", "gen", "buffer") if full else ("none", "true", "gen")):
                        if addon == "none" and S == "-" and not full:
                            continue
                        for n in ((0, 4, 9) if full else (0, 4)):
                            for parts in compositions(n, 3 if (full and n <= 4) else 2):
                                for te in ("Chunked", "CHUNKED", "gzip,chunked", "ows"):
                                    out.append({"dir": d, "proto": proto, "framing": "chunked", "te": te, "L": "-", "S": S, "store": store, "addon": addon, "parts": parts})
    return out


def window_cases(tier):
    """HTTP/2 client whose stream window is smaller than the body: the proxy must hold back what does not fit and hand it
    out, in order, as the client re-opens the window in steps (smaller than, equal to, larger than a buffered chunk)"""
    out = []
    windows = [[2, 2], [3, 1], [4, 5]] if tier == "quick" else [[1, 1], [2, 2], [3, 1], [4, 5], [5, 3]]
    sizes = [9] if tier == "quick" else [6, 9]
    for S in ("-", "3"):
        for store in (False, True):
            for addon in (("true", "gen") if tier == "quick" else ("none", "true", "upper", "list", "gen", "bracket")):
                if addon == "none" and S == "-":
                    continue
                if tier == "quick" and store and addon != "gen":
                    continue
                for fr in ("cl", "chunked", "eof"):
                    if addon == "bracket" and fr == "cl":
                        continue
                    if tier == "quick" and fr == "eof":
                        continue
                    for n in sizes:
                        pls = [p for p in compositions(n, 3) if len(p) >= 2 and (tier != "quick" or len(p) == 2 or p == [3, 3, 3])]
                        for parts in pls:
                            for win in windows:
                                out.append({"dir": "resp", "proto": "h2", "framing": fr, "L": "-", "S": S, "store": store, "addon": addon, "parts": parts, "window": win})
    return out


def _quick_keeps(proto, L, S, store, addon):
    """the quick tier is a sub-product: every value of every dimension occurs, the less interesting combinations are
    left to the thorough tier (which is the full product)"""
    if proto == "h2" and (L == "1k" or S == "8"):
        return False
    if L == "1k" and (S == "3" or addon not in ("none", "true")):
        return False
    if addon in ("upper", "list", "bracket") and (S != "-" or store):
        return False
    if addon in ("gen", "iter") and (S != "-" or (addon == "iter" and (L != "-" or not store))):
        return False  # the one-shot iterables stay crossed with store_streamed_bodies
    if store and addon == "true" and S != "-":
        return False
    return True


def chunk_fn(chunk):
    t = Tally()
    for c in chunk:
        run_case(c, t)
    return t


def run(ctx):
    cs = cases(ctx.tier)
    ctx.bounds = {
        "directions": ["req", "resp"], "client_protocols": ["h1", "h2"], "framings": {"h1 req": ["cl", "chunked"], "h2 req": ["h2cl", "h2"], "resp": ["cl", "chunked", "eof"]},
        "body_size_limit": ["-", "5", "1k"], "stream_large_bodies": ["-", "3", "8"], "store_streamed_bodies": [False, True],
        "addon_stream": list(ADDONS),
        "sizes": "0, 1, L-1, L, L+1, 2L, S, S+1 (1k: 1023, 1024, 1025, 2048)", "max_parts": ctx.pick(2, 3),
        "chunking": "every composition into <= max_parts parts for n <= 6; for 7 <= n <= 12 every composition into <= 2 parts plus the 3-part ones with a cut within 1 of a threshold; 8 fixed splits for n >= 1023; h1 additionally all parts in one TCP segment; Expect: 100-continue variant",
        "h2_client_flow_control": "responses streamed to an HTTP/2 client whose INITIAL_WINDOW_SIZE is [2..5] and which re-opens the window in steps of [1..5] bytes after the whole response reached the proxy (sizes 6/9, every composition into 2-3 parts)",
        "transfer_encoding_spellings": "chunked bodies in both directions additionally with the field spelled " + ", ".join(repr(v.decode()) for v in TE_SPELLINGS.values()),
        "quick_tier": "sub-product (see _quick_keeps): every value of every dimension occurs; thorough is the full product",
        "cases": len(cs),
    }
    nproc = pool_size()
    ctx.log("%d cases, %d workers" % (len(cs), nproc))
    par.pmap_tally(chunk_fn, cs, ctx.tally, nchunks=64, nproc=nproc)


def pool_size():
    """Scheduling only (the split into 64 chunks and the merge order do not depend on it): on the build machine (a VM
    with very expensive page faults after fork) a large forked pool was measured to be slower than a small one, loaded or not."""
    return min(par.NPROC, 6)


def replay(case, t, verbose=False):
    run_case(case, t, verbose=verbose)
