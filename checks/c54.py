"""C54 - sticky cookies are only sent to hosts, ports and paths they belong to.

Engine X: BFS over histories of `response(host, port, Set-Cookie)` / `request(host, port, path)`
on the real `StickyCookie` addon (configured through `taddons.context`, filter `~all`), with
the jar as the state.  The oracle is *safety only* and is written from RFC 6265 §5.1.3/§5.1.4
(`vmc.refs.cookieref`): a cookie may be attached only where domain, port and path match; a
cookie whose Domain attribute does not domain-match the responding host must not be in the
jar; a cookie deleted by an expired Set-Cookie must not be in the jar.  Never attaching a
cookie is never a violation.

Every cookie value encodes the response that set it (host|port|Domain|Path|expiry), so each
pair found in a Cookie header or in the jar can be traced back to its origin without looking
at how the addon keys its jar.
"""
from __future__ import annotations

import collections
import os

from mitmproxy.addons import stickycookie
from mitmproxy.net.http import cookies as mcookies
from mitmproxy.test import tflow
from mitmproxy.test import tutils

from vmc import explore
from vmc.drivers import addonctx
from vmc.refs import cookieref as ref
from vmc.tally import Tally

META = {
    "level": "model_checking",
    "technique": "explicit-state BFS over response/request histories on the real StickyCookie addon (state = jar), "
    "every attached cookie and every jar entry traced to its origin and judged by an RFC 6265 §5.1.3/§5.1.4 reference",
    "claim": "within the stated alphabets every history up to the depth bound was executed on the real addon; the "
    "property is a safety property over histories (what was learned earlier decides what may be attached now), so "
    "exhaustive bounded exploration with jar-state de-duplication decides it for the bound",
    "rule": "a case is one transition (jar state, action); non-trivial = a response that changed the jar or a request "
    "that got at least one cookie attached; distinct = distinct (action, effect) pairs",
    "assumptions": [
        "safety only: a cookie that could have been attached but was not is never a violation",
        "a cookie without Path attribute is taken to have path '/' (what the addon stores); the RFC 6265 §5.1.4 "
        "default-path of the setting request is not demanded, so the path of the setting request is not enumerated",
        "public-suffix rejection (§5.3 step 5) is not part of §5.1.3: Domain=com set by example.com counts as matching",
        "'expired cookie is removed' is judged for a Set-Cookie that is already expired when it arrives (past Expires, "
        "Max-Age=0, negative Max-Age; a non-numeric Max-Age is ignored per RFC 6265 5.2.2): it must not be stored itself, and a cookie set earlier by the same host:port with the same name, "
        "Domain and Path attributes must be gone afterwards (whether an equivalent Set-Cookie from another host must "
        "delete it too is left open); cookies that would expire later by the passage of time are not modelled (the "
        "clock in net.http.cookies is frozen)",
        "Max-Age together with a contradicting Expires is not enumerated (RFC 6265 gives Max-Age precedence, the "
        "statement does not say)",
        "one cookie name; host names are lower-case; IP-literal hosts only in the thorough wide scope",
        "the explorer clones the addon (new StickyCookie with a copied jar and the same compiled filter) instead of "
        "replaying the history; request()/response() do not read mitmproxy.ctx",
    ],
}

NOW = 1600000000  # frozen clock for mitmproxy.net.http.cookies (2020-09-13)


class _FrozenTime:
    """stands in for the `time` module inside mitmproxy.net.http.cookies"""

    @staticmethod
    def time() -> float:
        return float(NOW)


mcookies.time = _FrozenTime  # type: ignore
addonctx.quiet_logging()

EXPIRY = {
    "none": "",
    "future": "; Expires=Wed, 01 Jan 2031 00:00:00 GMT",
    "maxage_future": "; Max-Age=3600",
    "past": "; Expires=Thu, 01 Jan 2015 00:00:00 GMT",
    "maxage0": "; Max-Age=0",
    "maxage_negative": "; Max-Age=-1",      # RFC 6265 5.2.2: delta <= 0 -> earliest time, i.e. expired
    "maxage_garbage": "; Max-Age=soon",     # RFC 6265 5.2.2: not a number -> the attribute is ignored (session cookie)
}
EXPIRED = {"past", "maxage0", "maxage_negative"}
NAME = "c"

WIDE = {
    "hosts": ["example.com", "www.example.com", "a.www.example.com", "www.example.com.evil.org",
              "example.com.evil.org", "badexample.com", "evil.org"],
    "ports": [80, 8080],
    "domains": [None, ".example.com", "example.com", "www.example.com", "evil.org", "com"],
    "cpaths": [None, "/a"],
    "expiry": ["none", "future", "past", "maxage0"],
    "rpaths": ["/", "/a", "/a/b", "/ab"],
}
# IP-literal hosts (never domain-match anything but themselves), query strings that contain the cookie path,
# cookie and request paths with and without a trailing slash, every spelling of Max-Age
EDGE = {
    "hosts": ["10.0.0.1", "20.0.0.1", "0.0.1", "example.com"],
    "ports": [80],
    "domains": [None, ".0.0.1", "0.0.1", "10.0.0.1"],
    "cpaths": [None, "/a", "/a/"],
    "expiry": ["none", "maxage_future", "maxage0", "maxage_negative", "maxage_garbage"],
    # (origin-form targets may begin with "//": the request path of //x/a is //x/a, there is no authority in it)
    "rpaths": ["/", "/a", "/a/", "/a/b", "/ab", "/b/a", "/a?x=/ab", "/?x=/a", "/ab?x=/a/", "//x/a", "//x/a/b", "//a", "/b?/a/?/a"],
}
CORE = {
    "hosts": ["example.com", "www.example.com", "www.example.com.evil.org", "badexample.com"],
    "ports": [80, 8080],
    "domains": [None, ".example.com", "example.com"],
    "cpaths": [None, "/a"],
    "expiry": ["none", "past", "maxage0", "maxage_negative"],
    "rpaths": ["/", "/a", "/ab"],
}
CORE_QUICK = dict(CORE, expiry=["none", "past"])
# responses with one or two Set-Cookie fields of the same cookie name (different Domain / Path / expiry)
MULTI = {
    "hosts": ["example.com", "www.example.com"],
    "ports": [80],
    "domains": [None, ".example.com"],
    "cpaths": [None, "/a"],
    "expiry": ["none", "past"],
    "rpaths": ["/", "/a"],
    "pairs": True,
}


def enc(host, port, dom, cpath, exp):
    return "|".join([host, str(port), dom if dom is not None else "-", cpath if cpath is not None else "-", exp])


def dec(value):
    host, port, dom, cpath, exp = value.split("|")
    return host, int(port), (None if dom == "-" else dom), (None if cpath == "-" else cpath), exp


def set_cookie_line(value, dom, cpath, exp):
    s = "%s=%s" % (NAME, value)
    if dom is not None:
        s += "; Domain=%s" % dom
    if cpath is not None:
        s += "; Path=%s" % cpath
    return s + EXPIRY[exp]


def is_foreign(host, dom):
    return dom is not None and not ref.domain_match(host, ref.cookie_domain(dom))


def real_values(sc):
    """value -> list of jar keys holding it (the addon's jar, flattened)"""
    out = {}
    for key, names in sc.jar.items():
        for n, v in names.items():
            out.setdefault(v, []).append([repr(key), n])
    return out


def jar_dump(sc):
    return sorted([repr(k), sorted(v.items())] for k, v in sc.jar.items())


class Sys:
    __slots__ = ("sc", "legit", "bad", "ok", "effect")

    def __init__(self):
        self.sc = None
        # reference model: the cookie values that MAY be in the jar (set by a response whose Domain
        # attribute, if any, domain-matches the responding host; not expired on arrival; not deleted
        # since by an expired Set-Cookie from the same host:port with the same Domain/Path attributes)
        self.legit = set()
        self.bad = []
        self.ok = []
        self.effect = None


_BASE = {}
_CONNS = []


def base():
    """one configured addon per process: taddons.context + the `stickycookie` option, as in test_stickycookie.py"""
    pid = os.getpid()
    if pid not in _BASE:
        _BASE.clear()
        sc = stickycookie.StickyCookie()
        tctx = addonctx.new_context(sc)
        tctx.configure(sc, stickycookie="~all")
        assert sc.flt is not None
        _BASE[pid] = (tctx, sc)
    return _BASE[pid]


_FLOWS = {}


def mkflow(host, port, path, set_cookie):
    """the input flow of an action, built with the tflow/tutils builders like test_stickycookie.py does.
    Flows are inputs: the addon only reads response flows and only adds a Cookie header (and a metadata
    flag) to request flows, so one flow per action is kept per process and the Cookie header reset."""
    key = (host, port, path, set_cookie)
    f = _FLOWS.get(key)
    if f is None:
        if not _CONNS:
            _CONNS.extend([tflow.tclient_conn(), tflow.tserver_conn()])
        f = _FLOWS[key] = tflow.tflow(client_conn=_CONNS[0], server_conn=_CONNS[1],
                                      req=tutils.treq(host=host, port=port, path=path.encode()),
                                      resp=set_cookie is not None)
        if set_cookie is not None:
            for line in set_cookie:  # a tuple of Set-Cookie field values, one header field each
                f.response.headers.add("Set-Cookie", line)
    else:
        f.request.headers.pop("cookie", None)
        f.metadata.pop("stickycookie", None)
    return f


class Spec:
    def __init__(self, alpha):
        self.alpha = alpha
        acts = []
        for h in alpha["hosts"]:
            for p in alpha["ports"]:
                for r in alpha["rpaths"]:
                    acts.append(["req", h, p, r])
        for e in alpha["expiry"]:
            for d in alpha["domains"]:
                for c in alpha["cpaths"]:
                    for h in alpha["hosts"]:
                        for p in alpha["ports"]:
                            acts.append(["resp", h, p, d, c, e])
        if alpha.get("pairs"):
            # responses carrying two Set-Cookie fields with the same cookie name (every ordered pair of different cookies)
            singles = [[d, c, e] for e in alpha["expiry"] for d in alpha["domains"] for c in alpha["cpaths"]]
            for h in alpha["hosts"]:
                for p in alpha["ports"]:
                    for c1 in singles:
                        for c2 in singles:
                            if c1 != c2:
                                acts.append(["resp2", h, p, c1, c2])
        self._acts = acts

    # -- system -----------------------------------------------------------------------
    def build(self):
        # a fresh addon carrying the filter that the real configure() compiled in this process
        s = Sys()
        s.sc = stickycookie.StickyCookie()
        s.sc.flt = base()[1].flt
        return s

    def clone(self, s):
        c = Sys()
        c.sc = stickycookie.StickyCookie()
        c.sc.flt = s.sc.flt
        c.sc.jar = collections.defaultdict(dict, {k: dict(v) for k, v in s.sc.jar.items()})
        c.legit = set(s.legit)
        return c

    def fingerprint(self, s):
        return [jar_dump(s.sc), sorted(s.legit)]

    def actions(self, s):
        return self._acts

    # -- transitions ------------------------------------------------------------------
    def apply(self, s, a):
        s.bad, s.ok, s.effect = [], [], None
        if a[0] in ("resp", "resp2"):
            self._response(s, a)
        else:
            self._request(s, a)

    def _response(self, s, a):
        host, port = a[1], a[2]
        # one Set-Cookie field per cookie, all with the same cookie name, in this order
        cookies = [tuple(a[3:6])] if a[0] == "resp" else [tuple(c) for c in a[3:]]
        lines = tuple(set_cookie_line(enc(host, port, d, c, e), d, c, e) for d, c, e in cookies)
        exp = "+".join(e for _, _, e in cookies)
        pre_real = real_values(s.sc)
        pre_model = set(s.legit)
        pre_dump = jar_dump(s.sc)
        f = mkflow(host, port, "/", lines)
        exc = None
        try:
            s.sc.response(f)
        except KeyboardInterrupt:
            raise
        except BaseException as e:
            exc = "%s: %s" % (type(e).__name__, e)
        # reference model: what may be in the jar (cookies of one response take effect in field order)
        for dom, cpath, e in cookies:
            if not is_foreign(host, dom):
                if e in EXPIRED:
                    same = enc(host, port, dom, cpath, "")
                    s.legit = {v for v in s.legit if not v.startswith(same)}
                else:
                    s.legit.add(enc(host, port, dom, cpath, e))
        post_real = real_values(s.sc)
        post_model = s.legit
        if exc is not None:
            s.bad.append(("foreign_domain_not_stored", {"op": "response", "exception": exc.split(":")[0]}, None, exc))
            return
        new_foreign = new_expired = 0
        for v, where in sorted(post_real.items()):
            try:
                vh, vp, vd, vc, ve = dec(v)
            except ValueError:
                s.bad.append(("foreign_domain_not_stored", {"op": "response", "cause": "unknown_value_in_jar"}, None, v))
                continue
            if is_foreign(vh, vd):
                if v not in pre_real:
                    new_foreign += 1
                    s.bad.append(("foreign_domain_not_stored",
                                  {"op": "response", "domain_rel": ref.domain_relation(vh, ref.cookie_domain(vd))},
                                  "not stored: %r does not domain-match Domain=%s" % (vh, vd), where))
            elif v not in post_model:
                was_wrong = v in pre_real and v not in pre_model
                if not was_wrong:
                    new_expired += 1
                    cause = "expired_cookie_stored" if v not in pre_real else "not_removed"
                    s.bad.append(("expired_removed", {"op": "response", "cause": cause, "expiry": exp,
                                                      "cookies_in_response": len(cookies)},
                                  "value %s absent from the jar after %s" % (v, list(lines)), where))
        if not new_foreign:
            s.ok.append("foreign_domain_not_stored")
        if not new_expired:
            s.ok.append("expired_removed")
        changed = jar_dump(s.sc) != pre_dump
        s.effect = ("resp", changed, sorted(set(post_real) - set(pre_real)), sorted(set(pre_real) - set(post_real)))

    def _request(self, s, a):
        _, host, port, rpath = a
        f = mkflow(host, port, rpath, None)
        exc = None
        try:
            s.sc.request(f)
        except KeyboardInterrupt:
            raise
        except BaseException as e:
            exc = "%s: %s" % (type(e).__name__, e)
        clause = "attached_only_if_domain_port_path_match"
        if exc is not None:
            s.bad.append((clause, {"op": "request", "exception": exc.split(":")[0]}, None, exc))
            return
        attached = []
        for line in f.request.headers.get_all("cookie"):
            for pair in line.split("; "):
                n, _, v = pair.partition("=")
                attached.append((n, v))
        real = real_values(s.sc)
        model = s.legit
        rp = ref.request_path(rpath)
        nbad = 0
        for n, v in attached:
            try:
                vh, vp, vd, vc, ve = dec(v)
            except ValueError:
                vh = None
            if n != NAME or vh is None:
                nbad += 1
                s.bad.append((clause, {"op": "request", "fail": "unknown_pair"}, None, [n, v]))
                continue
            host_only = vd is None
            cd = vh if host_only else ref.cookie_domain(vd)
            dom_ok = (host.lower() == vh.lower()) if host_only else ref.domain_match(host, cd)
            cpath = vc or "/"
            obs = {"request": [host, port, rpath], "cookie": v, "header": f.request.headers.get_all("cookie")}
            if not dom_ok:
                nbad += 1
                s.bad.append((clause, {"op": "request", "fail": "domain", "host_only": host_only,
                                       "domain_rel": ref.domain_relation(host, cd)},
                              "no cookie of domain %r (host_only=%s) for host %r" % (cd, host_only, host), obs))
            if port != vp:
                nbad += 1
                s.bad.append((clause, {"op": "request", "fail": "port"}, "cookie set on port %d" % vp, obs))
            if not ref.path_match(rp, cpath):
                nbad += 1
                s.bad.append((clause, {"op": "request", "fail": "path", "path_rel": ref.path_relation(rp, cpath)},
                              "request path %r does not path-match %r" % (rp, cpath), obs))
            if v not in model and v not in real:
                # (a value that is wrongly in the jar was reported by the response that put/left it there)
                nbad += 1
                s.bad.append((clause, {"op": "request", "fail": "not_in_jar"}, None, obs))
        if not nbad:
            s.ok.append(clause)
        s.effect = ("req", bool(attached), sorted(v for _, v in attached))

    # -- judging ----------------------------------------------------------------------
    def check(self, s, hist, t: Tally):
        for clause, feats, exp, obs in s.bad:
            t.bad(clause, feats, list(hist), exp, obs)
        for clause in s.ok:
            t.ok(clause)
        eff = s.effect
        s.bad, s.ok, s.effect = [], [], None
        if not hist:
            t.case(None, nontrivial=False)
            return
        a = hist[-1]
        nontrivial = bool(eff and eff[1])
        if eff and eff[0] == "req":
            t.outcome(eff[2])
            if eff[1]:
                t.add("requests_with_cookie_attached")
                t.add("cookie_pairs_attached", len(eff[2]))
        elif eff and eff[1]:
            t.add("responses_changing_jar")
        sample = None
        if nontrivial and len(t.samples) < 3 and len(hist) >= 2 and a[0] == "req":
            sample = {"history": list(hist), "attached": eff[2]}
        t.case(sample, nontrivial=nontrivial, key=[a, eff])


def run(ctx):
    wide = WIDE
    core = CORE if ctx.thorough else CORE_QUICK
    wide_depth = ctx.pick(2, 3)
    core_depth = ctx.pick(4, 5)
    edge_depth = ctx.pick(2, 3)
    multi_depth = ctx.pick(3, 4)
    ctx.bounds = {
        "clock": NOW,
        "scopes": "every history up to `depth` over each scope's alphabet (responses: host x port x Domain x Path x "
                  "expiry; requests: host x port x path; in the multi scope also responses with two Set-Cookie fields of "
                  "the same name: every ordered pair of different Domain x Path x expiry cookies)",
        "wide": dict(wide, depth=wide_depth),
        "core": dict(core, depth=core_depth),
        "edge": dict(EDGE, depth=edge_depth),
        "multi": dict(MULTI, depth=multi_depth),
        "expiry_attributes": EXPIRY,
    }
    for name, alpha, depth in (("wide", wide, wide_depth), ("edge", EDGE, edge_depth), ("multi", MULTI, multi_depth),
                               ("core", core, core_depth)):
        spec = Spec(alpha)
        ctx.log("%s scope: %d actions/state, depth %d" % (name, len(spec._acts), depth))
        states, capped = explore.bfs(spec, depth, ctx.tally, log=ctx.log)
        ctx.log("%s scope done: %d jar states" % (name, states))


def replay(case, t: Tally, verbose=False):
    spec = Spec(CORE)
    s = spec.build()
    hist = []
    for a in case:
        spec.apply(s, a)
        hist.append(a)
        if verbose:
            print("  %-70s jar=%s%s" % (a, jar_dump(s.sc), "  attached=%s" % (s.effect[2],) if s.effect and s.effect[0] == "req" else ""))
        spec.check(s, hist, t)
