"""tools/markfixed.py <PID> <commit> <finding-id> [<finding-id> ...]
Marks findings as fixed by <commit> (a 'fix:' commit in /repo), writes the reverse patch of
that commit as mutants/<PID>-revert-fix-<first id>.diff (the pre-fix code is a mutant every
check must keep detecting) and renames findings/<PID>-*.fix.diff that matches to .fixed.diff."""
import glob
import json
import os
import subprocess
import sys

ROOT = os.path.dirname(os.path.dirname(os.path.abspath(__file__)))
pid, commit, ids = sys.argv[1], sys.argv[2], sys.argv[3:]
p = os.path.join(ROOT, "findings", pid + ".json")
d = json.load(open(p))
hit = 0
for e in d["findings"]:
    if e["id"] in ids:
        e["status"] = "fixed"
        e["commit"] = commit
        hit += 1
json.dump(d, open(p, "w"), indent=1, ensure_ascii=False)
rev = subprocess.check_output(["git", "-C", "/repo", "diff", commit + "~1", commit, "-R"])
out = os.path.join(ROOT, "mutants", "%s-revert-fix-%s.diff" % (pid, ids[0]))
open(out, "wb").write(rev)
for f in glob.glob(os.path.join(ROOT, "findings", pid + "-*.fix.diff")):
    if any(i in f for i in ids):
        os.rename(f, f.replace(".fix.diff", ".fixed.diff"))
print("marked %d entries fixed; wrote %s" % (hit, out))
