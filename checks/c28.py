"""C28 - WebSocket relay exactness between two peers (real WebsocketLayer, real Fragmentizer).

The real `WebsocketLayer` (driven directly with a Context, the HTTPFlow of a completed
101 upgrade with / without `Sec-WebSocket-Extensions: permessage-deflate`) sits
between two peers from vmc/peers/wspeer.py: frames are put on the wire by a serializer
written there (so a text frame may end inside a code point), everything mitmproxy
writes is parsed back frame by frame and, independently, reassembled by a wsproto
connection of the opposite role (which validates UTF-8 and framing).

Two exhaustive families, both on the real code:

 single   every (direction, deflate, type, payload, fragmentation into <= 3 frames incl.
          cuts inside a code point, <= 1 TCP segmentation cut, addon edit) for ONE message,
          plus every injected message - the input quantifier of the statement
 sched    every interleaving of two scripted peers (<= n items per direction out of text /
          fragmented text / binary / ping / pong / close with code+reason / close without
          code / TCP abort), with injections at every point, addon edits / drops, and
          websocket_message hooks held and completed at every later point - DFS over
          schedules, every execution run to the end of both scripts
A third, small family runs a subset of the scenarios through `World` (real HTTP/1 upgrade
handshake in regular mode through ProxyConnectionHandler + HttpLayer) and requires the
same observations as the direct driver - it validates the driver, it is not the oracle.
"""
from __future__ import annotations

import itertools
import types

from wsproto.frame_protocol import Opcode

from mitmproxy import connection, http, websocket
from mitmproxy.connection import ConnectionState
from mitmproxy.proxy import commands, context, events
from mitmproxy.proxy.layers import websocket as wsl

from vmc import par
from vmc.explore import _dev_rec
from vmc.peers import wspeer
from vmc.tally import HarnessError, Tally

META = {
    "level": "model_checking",
    "technique": "exhaustive enumeration of single-message inputs (payload x fragmentation x segmentation x addon edit) and exhaustive DFS over all interleavings of two scripted WebSocket peers, injections and hook completion points on the real WebsocketLayer; independent wsproto receivers plus a byte-level frame parser as observers",
    "claim": "within the stated alphabets every message (as modified / dropped / injected) reaches the other peer exactly once, in order, with the same type and exactly the recorded content; unmodified messages keep their frame boundaries (a boundary inside a code point moves to the code point's edge); pings and pongs are relayed; the recorded close code / reason / closing side are what the closing peer sent",
    "rule": "single: a case is (direction, deflate, type, payload, pieces, segmentation cut, edit); sched: a case is (scripts, configuration, schedule). distinct = distinct tuple; non-trivial = at least one data message reached the websocket_message hook",
    "assumptions": [
        "the layer is entered the way HttpStream does after a 101 (flow.websocket set, Start event); the World family checks that this matches the real handshake path",
        "addons set valid UTF-8 as text content (invalid UTF-8 set by an addon is replaced by design)",
        "with permessage-deflate only the number of frames of an unmodified message is compared: which uncompressed bytes belong to which frame is decided by the compressors' flush points, not by mitmproxy",
        "a close frame without a code is recorded as 1005, a TCP close without a close frame as 1006 (RFC 6455 section 7.1.5)",
    ],
}

E2 = "é".encode()  # 2-byte code point
E4 = "\U0001F600".encode()  # 4-byte code point


def payload(kind: str) -> bytes:
    return {
        "empty": b"", "a": b"a", "u2": E2, "u4": E4, "mix": b"a" + E2 + E4 + b"b",
        "n125": b"x" * 125, "n126": b"x" * 126, "n65536": b"y" * 65536,
        "t3999": b"a" * 3997 + E2, "t4000": b"a" * 3998 + E2, "t4001": b"a" * 3999 + E2,
        "t8001": b"a" * 3999 + E2 + b"a" * 3998 + E2,
        "bin": b"\xff\x00\xfe",
    }[kind]


def cp_lo(data: bytes, off: int) -> int:
    """start of the code point that contains byte offset `off` (off itself when it is a boundary)"""
    while 0 < off < len(data) and (data[off] & 0xC0) == 0x80:
        off -= 1
    return off


def cp_hi(data: bytes, off: int) -> int:
    while 0 < off < len(data) and (data[off] & 0xC0) == 0x80:
        off += 1
    return off


def apply_edit(edit: str, m, is_text: bool):
    c = m.content
    if edit == "pass":
        return
    if edit == "drop":
        m.drop()
    elif edit == "same_len":
        if c:
            last = c[-1]
            nb = (ord("z") if last != ord("z") else ord("y")) if last < 0x80 else last ^ 1
            m.content = c[:-1] + bytes([nb])
    elif edit == "shift":
        if is_text:
            s = c.decode()
            m.content = (s[1:] + s[:1]).encode()
        else:
            m.content = c[1:] + c[:1]
    elif edit == "longer":
        m.content = c + (b"+" + E2 if is_text else b"+\xff")
    elif edit == "shorter":
        m.content = c.decode()[:-1].encode() if is_text else c[:-1]
    elif edit == "to_empty":
        m.content = b""
    elif edit.startswith("to_"):
        m.content = payload(edit[3:])
    else:  # pragma: no cover
        raise HarnessError(edit)


class WS:
    """the layer between two peers; hooks complete at once (policy applied) or are held"""

    def __init__(self, deflate: bool, policy=None, hold=False):
        self.client = connection.Client(peername=("192.0.2.10", 51000), sockname=("192.0.2.1", 8080), state=ConnectionState.OPEN)
        self.ctx = context.Context(self.client, types.SimpleNamespace(proxy_debug=False))
        self.ctx.server.address = ("ws.example", 80)
        self.ctx.server.state = ConnectionState.OPEN
        self.flow = http.HTTPFlow(self.client, self.ctx.server)
        self.flow.request = http.Request.make("GET", "http://ws.example/chat", headers={
            "Connection": "Upgrade", "Upgrade": "websocket", "Sec-WebSocket-Version": "13", "Sec-WebSocket-Key": "dGhlIHNhbXBsZSBub25jZQ=="})
        h = {"Connection": "Upgrade", "Upgrade": "websocket", "Sec-WebSocket-Accept": "s3pPLMBiTxaQ9kYGzzhZRbK+xOo="}
        if deflate:
            h["Sec-WebSocket-Extensions"] = "permessage-deflate"
        self.flow.response = http.Response.make(101, headers=h)
        self.flow.websocket = websocket.WebSocketData()  # what HttpStream does before it creates the layer
        self.layer = wsl.WebsocketLayer(self.ctx, self.flow)
        self.peer = {"c": wspeer.Peer("client", deflate), "s": wspeer.Peer("server", deflate)}
        self.policy, self.hold = policy, hold
        self.held = []
        self.hooks = []
        self.conn_closed = []  # CloseConnection commands, in order
        self.crash = None
        self.seen = 0  # messages that reached the hook
        self.feed(events.Start())

    def side(self, conn):
        return "c" if conn is self.client else "s"

    def feed(self, ev):
        q = [ev]
        while q and self.crash is None:
            e = q.pop(0)
            try:
                for c in self.layer.handle_event(e):
                    if isinstance(c, commands.StartHook):
                        self.hooks.append(c.name)
                        if c.name == "websocket_message":
                            self.seen += 1
                            if self.policy is not None:
                                self.policy(self, self.flow.websocket.messages[-1])
                            if self.hold:
                                self.held.append(c)
                                continue
                        if c.blocking:
                            q.append(events.HookCompleted(c))
                    elif isinstance(c, commands.SendData):
                        self.peer[self.side(c.connection)].receive(bytes(c.data))
                    elif isinstance(c, commands.CloseConnection):
                        self.conn_closed.append(self.side(c.connection))
            except BaseException as e2:  # noqa
                if isinstance(e2, (KeyboardInterrupt, HarnessError)):
                    raise
                self.crash = "%s: %s" % (type(e2).__name__, str(e2)[:200])

    def wire(self, side, data: bytes):
        self.feed(events.DataReceived(self.client if side == "c" else self.ctx.server, data))

    def tcp_close(self, side):
        self.feed(events.ConnectionClosed(self.client if side == "c" else self.ctx.server))

    def inject(self, from_client: bool, is_text: bool, content: bytes):
        msg = websocket.WebSocketMessage(Opcode.TEXT if is_text else Opcode.BINARY, from_client, content)
        self.feed(wsl.WebSocketMessageInjected(self.flow, msg))

    def complete(self):
        self.feed(events.HookCompleted(self.held.pop(0)))


class WSWorld:
    """same interface as WS, but the layer is reached the real way: ProxyConnectionHandler in regular mode,
    HTTP/1 upgrade request, upstream connect, 101 response - then HttpStream swaps in the WebsocketLayer itself"""

    REQ = (b"GET http://ws.example/chat HTTP/1.1\r\nHost: ws.example\r\nConnection: Upgrade\r\nUpgrade: websocket\r\n"
           b"Sec-WebSocket-Key: dGhlIHNhbXBsZSBub25jZQ==\r\nSec-WebSocket-Version: 13\r\n%s\r\n")
    RESP = (b"HTTP/1.1 101 Switching Protocols\r\nConnection: Upgrade\r\nUpgrade: websocket\r\n"
            b"Sec-WebSocket-Accept: s3pPLMBiTxaQ9kYGzzhZRbK+xOo=\r\n%s\r\n")
    EXT = b"Sec-WebSocket-Extensions: permessage-deflate\r\n"

    def __init__(self, deflate: bool, policy=None, hold=False):
        from vmc.drivers.world import World

        self.policy, self.hold = policy, hold
        self.seen = 0
        self.flow = None
        self.world = w = World(mode="regular", policy=self._policy, suspend=(lambda n, d, w_: n == "websocket_message") if hold else None)
        self.peer = {"c": wspeer.Peer("client", deflate), "s": wspeer.Peer("server", deflate)}
        self.off = {"c": None, "s": None}
        self.reg = None
        w.start()
        w.client_send(self.REQ % (self.EXT if deflate else b""))
        w.connect_ok(w.pending_connects()[0])
        self.srv = w.servers[0]
        if b"\r\n\r\n" not in self.srv.w.data:
            raise HarnessError("upgrade request did not reach the server: %r" % self.srv.w.data[:80])
        self.off["s"] = len(self.srv.w.data)
        w.server_send(self.srv, self.RESP % (self.EXT if deflate else b""))
        head, sep, _ = w.client.w.data.partition(b"\r\n\r\n")
        if not head.startswith(b"HTTP/1.1 101") or not sep:
            raise HarnessError("no 101 at the client: %r" % w.client.w.data[:80])
        self.off["c"] = len(head) + 4
        self.flow = next((d for n, d in w.hook_objs if n == "websocket_start"), None)
        if self.flow is None:
            raise HarnessError("websocket_start did not fire: %r" % [n for n, _ in w.hooks])
        self.ps = w.master.addons.get("proxyserver")
        self.reg = w.handler.client.id
        self.ps.connections[self.reg] = w.handler
        self._pump()

    def _policy(self, name, data, world):
        if name == "websocket_message":
            self.seen += 1
            if self.policy is not None:
                self.policy(self, data.websocket.messages[-1])

    def _pump(self):
        for sd, end in (("c", self.world.client), ("s", self.srv)):
            d = end.w.data
            if len(d) > self.off[sd]:
                self.peer[sd].receive(d[self.off[sd]:])
                self.off[sd] = len(d)

    @property
    def held(self):
        return self.world.suspended

    @property
    def hooks(self):
        return [n for n, _ in self.world.hooks if n.startswith("websocket_")]

    @property
    def crash(self):
        return self.world.errors[0][:200] if self.world.errors else None

    def wire(self, side, data):
        if side == "c":
            self.world.client_send(data)
        else:
            self.world.server_send(self.srv, data)
        self._pump()

    def tcp_close(self, side):
        if side == "c":
            self.world.client.r.eof = True
            self.world.client_eof()
        else:
            self.srv.r.eof = True
            self.world.server_eof(self.srv)
        self._pump()

    def inject(self, from_client, is_text, content):
        self.world.do(self.ps.inject_websocket, self.flow, not from_client, content, is_text)
        self._pump()

    def complete(self):
        self.world.complete_hook(0)
        self._pump()

    def dispose(self):
        try:
            if self.reg is not None:
                self.ps.connections.pop(self.reg, None)
            self.world.close_out()
        finally:
            self.world.dispose()


def observation(w):
    """what the statement talks about, in a form that is comparable between the two drivers"""
    ws_ = w.flow.websocket
    return {
        "recorded": [[m.from_client, int(m.type), m.content, m.dropped, m.injected] for m in ws_.messages],
        "peers": {sd: {"messages": [[m[0], m[1], m[2]] for m in p.messages], "pings": p.pings, "pongs": p.pongs,
                       "closes": [[int(c[0]), c[1]] for c in p.closes], "errors": p.errors} for sd, p in w.peer.items()},
        "close": [ws_.close_code, ws_.close_reason, ws_.closed_by_client],
        "hooks": list(w.hooks),
    }


# =============================================================================== family "single"

SMALL = ["empty", "a", "u2", "u4", "mix"]
SIZES = ["n125", "n126", "n65536"]
LONGTEXT = ["t3999", "t4000", "t4001", "t8001"]
EDITS = ["pass", "same_len", "shift", "longer", "shorter", "to_empty", "to_t4000", "to_t4001", "to_t8001", "drop"]


def pieces_for(kind: str, data: bytes, thorough: bool):
    n = len(data)
    out = [[data]]
    if kind in SMALL:
        cuts = range(0, n + 1)
        for c1 in cuts:
            out.append([data[:c1], data[c1:]])
        for c1, c2 in itertools.combinations_with_replacement(cuts, 2):
            if kind == "mix" or thorough or (c1, c2) in ((0, 0), (n, n), (0, n)):
                out.append([data[:c1], data[c1:c2], data[c2:]])
    else:
        offs = [1, n // 2, n - 1]
        if n > 4000:
            offs += [3999, 4000]
        for c1 in sorted(set(o for o in offs if 0 < o < n)):
            out.append([data[:c1], data[c1:]])
        if n > 8000:
            out.append([data[:4000], data[4000:8000], data[8000:]])
    # de-duplicate
    seen, res = set(), []
    for p in out:
        k = tuple(p)
        if k not in seen:
            seen.add(k)
            res.append(p)
    return res


def seg_cuts(wire_len: int, thorough: bool):
    base = [None, 1, wire_len // 2, wire_len - 1]
    if thorough and wire_len <= 40:
        base = [None] + list(range(1, wire_len))
    return [c for c in dict.fromkeys(base) if c is None or 0 < c < wire_len]


def single_cases(tier):
    thorough = tier == "thorough"
    cases = []
    for deflate in (False, True):
        for is_text in (True, False):
            kinds = SMALL + SIZES + (LONGTEXT if is_text else ["bin"])
            for kind in kinds:
                data = payload(kind)
                for pieces in pieces_for(kind, data, thorough):
                    cut_cp = is_text and any(cp_lo(data, o) != o for o in itertools.accumulate(len(p) for p in pieces[:-1]))
                    if deflate and cut_cp:
                        continue  # the deflate sender is wsproto: it cannot cut a code point
                    for edit in EDITS:
                        if deflate and len(pieces) > 1 and edit not in ("pass", "drop", "longer"):
                            continue  # frame lengths as mitmproxy sees them are not known to the harness under deflate
                        big = kind in SIZES + LONGTEXT or edit.startswith("to_t")
                        for d in ("c", "s"):
                            if big and d == "s" and not thorough:
                                continue
                            wl = sum(len(p) for p in pieces) + 14 * len(pieces)
                            segs = seg_cuts(min(wl, 30) if not big else wl, thorough) if (edit in ("pass", "longer") and not deflate) else [None]
                            if big:
                                segs = [s for s in segs if s in (None, 1)] + ([4010] if wl > 4100 and edit == "pass" else [])
                            for seg in segs:
                                cases.append({"f": "single", "deflate": deflate, "text": is_text, "kind": kind, "pieces": [len(p) for p in pieces],
                                              "edit": edit, "dir": d, "seg": seg})
    # injected messages
    for deflate in (False, True):
        for is_text in (True, False):
            for kind in SMALL + ["n126"] + (LONGTEXT if is_text else ["bin", "t8001"]):
                for d in ("c", "s"):
                    cases.append({"f": "inject", "deflate": deflate, "text": is_text, "kind": kind, "dir": d})
    return cases


def split_pieces(data, lens):
    out, i = [], 0
    for n in lens:
        out.append(data[i: i + n])
        i += n
    return out


def run_single(case, t: Tally, verbose=False):
    is_text, d = case["text"], case["dir"]
    other = "s" if d == "c" else "c"
    data = payload(case["kind"])
    injected = case["f"] == "inject"
    edit = "pass" if injected else case["edit"]
    w = WS(case["deflate"], policy=lambda ws, m: apply_edit(edit, m, is_text))
    pieces = [data]
    if injected:
        w.inject(d == "c", is_text, data)
    else:
        pieces = split_pieces(data, case["pieces"])
        wire = b"".join(w.peer[d].message(is_text, pieces))
        if case["seg"] is None:
            w.wire(d, wire)
        else:
            w.wire(d, wire[: case["seg"]])
            w.wire(d, wire[case["seg"]:])
    rec = w.flow.websocket.messages
    dst, src = w.peer[other], w.peer[d]
    final = rec[0].content if rec else None
    # ---- features: name the trigger class a priori
    offs = list(itertools.accumulate(len(p) for p in pieces[:-1]))
    seen_offs = [cp_lo(data, o) for o in offs] if is_text else offs  # frame_buf boundaries as the layer sees them (no deflate)
    refrag, cut_in_cp = "-", False
    if final is not None and not injected and edit != "drop":
        if len(final) == len(data):
            refrag = "reuse"
            cuts = seen_offs
        else:
            refrag = "resize"
            cuts = list(range(4000, len(final), 4000))
            if cuts and cuts[-1] >= len(final):
                cuts.pop()
        cut_in_cp = is_text and any(0 < o < len(final) and cp_lo(final, o) != o for o in cuts)
    if injected:
        # an injected message has no original frames: it is cut every 4000 bytes
        refrag = "resize"
        cut_in_cp = is_text and any(cp_lo(data, o) != o for o in range(4000, len(data), 4000))
    feats = {"family": case["f"], "type": "text" if is_text else "binary", "deflate": case["deflate"], "edit": edit,
             "frames": "1" if len(pieces) == 1 else "multi", "refrag": refrag, "cut_in_codepoint": cut_in_cp}
    t.case(case if len(t.samples) < 2 and case.get("edit") == "longer" and len(pieces) > 1 else None, nontrivial=w.seen > 0, key=case)
    t.executions += 1
    t.outcome([feats, [m[:1] + [len(m[1]), m[2]] for m in dst.messages], dst.errors[:1], dst.closes])
    if verbose:
        print("case", case)
        print("recorded", [(m.type, m.from_client, len(m.content), m.content[:24], m.content[-8:], m.dropped, m.injected) for m in rec])
        print("receiver", [(m[0], len(m[1]), m[1][:24], m[1][-8:], m[2]) for m in dst.messages], "frames", dst.frames() if not case["deflate"] else "-",
              "errors", dst.errors, "closes", dst.closes, "crash", w.crash)
    if w.crash is not None:
        t.bad("each_message_once_in_order_same_type", dict(feats, exception=True), case, "no exception", w.crash)
        return
    # ---- each message once, same type, not echoed
    want_n = 0 if edit == "drop" else 1
    ok = (len(rec) == 1 and rec[0].from_client == (d == "c") and rec[0].type == (Opcode.TEXT if is_text else Opcode.BINARY)
          and rec[0].injected == injected and len(dst.messages) == want_n and all(m[0] == is_text for m in dst.messages)
          and not src.messages and not src.raw)
    t.judge("each_message_once_in_order_same_type", ok, feats, case, {"recorded": 1, "delivered": want_n, "type": feats["type"]},
            {"recorded": [(str(m.type), m.from_client, m.injected) for m in rec], "delivered": [[m[0], len(m[1])] for m in dst.messages],
             "echoed": len(src.raw)})
    if not rec:
        return
    if injected:
        # "each message - as ... injected by addons - is delivered": the message that is recorded and relayed is the one the addon injected
        t.judge("injected_content_is_what_was_injected", final == data, feats, case, [len(data), data[-8:]], [len(final), final[-12:]])
    elif edit == "pass":
        t.judge("recorded_equals_sent_when_unmodified", final == data, feats, case, [len(data), data[:32]], [len(final), final[:32]])
    # ---- content equals recorded
    if want_n:
        got = dst.messages[0][1] if dst.messages else None
        ok = got == final and not dst.errors and not dst.closes
        if not ok and got is not None and got != final:
            k = next((i for i in range(min(len(got), len(final))) if got[i] != final[i]), min(len(got), len(final)))
            obs = {"len": len(got), "first_difference_at": k, "got": got[max(0, k - 4): k + 8], "recorded": final[max(0, k - 4): k + 8]}
        else:
            obs = {"got": None if got is None else len(got), "errors": dst.errors[:1], "closes": dst.closes[:1]}
        t.judge("content_equals_recorded", ok, feats, case, {"len": len(final)}, obs)
    else:
        t.judge("content_equals_recorded", not dst.raw, feats, case, "a dropped message puts nothing on the wire", len(dst.raw))
    # ---- frame boundaries of unmodified messages
    if edit == "pass" and not injected:
        if case["deflate"]:
            got_n = dst.messages[0][2] if dst.messages else None
            t.judge("unmodified_keeps_frame_boundaries", got_n == len(pieces), feats, case, len(pieces), got_n)
        else:
            fr = dst.frames()
            got_offs = list(itertools.accumulate(fr[0][:-1])) if fr else None
            ok = fr and len(fr) == 1 and len(fr[0]) == len(pieces) and all(
                g in ((o,) if not is_text else (cp_lo(data, o), cp_hi(data, o))) for g, o in zip(got_offs, offs))
            t.judge("unmodified_keeps_frame_boundaries", bool(ok), feats, case, {"frame_lengths": [len(p) for p in pieces]}, {"frame_lengths": fr})


# =============================================================================== family "sched"

ITEMS = ["T", "T2", "B", "PING", "PONG", "CLOSE", "CLOSE0", "ABORT"]
TERMINAL = ("CLOSE", "CLOSE0", "ABORT")
CONFIGS = [  # (deflate, policy, hold, injections)
    (False, "pass", False, True),
    (True, "pass", False, False),
    (False, "longer", False, False),
    (False, "drop_first", False, False),
    (False, "pass", True, False),
    (True, "longer", True, False),
]


def scripts(n):
    out = [[]]
    for k in range(1, n + 1):
        for seq in itertools.product(ITEMS, repeat=k):
            if any(x in TERMINAL for x in seq[:-1]):
                continue
            out.append(list(seq))
    return out


def units(side, script, deflate, peer):
    """wire units of one script: [kind, bytes, meta]"""
    out = []
    n = 0
    for it in script:
        if it in ("T", "T2", "B"):
            is_text = it != "B"
            content = (b"<" + side.encode() + b"%d" % n + E2 + b">") if is_text else (b"<" + side.encode() + b"%d\xff>" % n)
            n += 1
            if it == "T2":
                cut = content.index(E2) + (1 if not deflate else 0)  # inside the code point when the sender can do that
                pieces = [content[:cut], content[cut:]]
            else:
                pieces = [content]
            frames = peer.message(is_text, pieces)
            for k, f in enumerate(frames):
                out.append(["frame", f, {"msg": [is_text, content] if k == len(frames) - 1 else None}])
        elif it == "PING":
            out.append(["ping", peer.ping(b"pi-" + side.encode()), {"payload": b"pi-" + side.encode()}])
        elif it == "PONG":
            out.append(["pong", peer.pong(b"po-" + side.encode()), {"payload": b"po-" + side.encode()}])
        elif it == "CLOSE":
            out.append(["close", peer.close(1000 if side == "c" else 1001, "bye " + side + " é"), {"code": 1000 if side == "c" else 1001, "reason": "bye " + side + " é"}])
        elif it == "CLOSE0":
            out.append(["close", peer.close(None), {"code": 1005, "reason": ""}])
        elif it == "ABORT":
            out.append(["abort", None, {"code": 1006, "reason": None}])
    return out


class Sched:
    def __init__(self, sc, ss, cfg, world=False, quiet=False):
        self.sc, self.ss, self.cfg, self.world, self.quiet = sc, ss, cfg, world, quiet
        self.obs = None

    def policy(self, ws, m):
        pol = self.cfg[1]
        if m.injected:
            return
        k = "c" if m.from_client else "s"
        self.nth[k] += 1
        if pol == "longer":
            apply_edit("longer", m, m.type == Opcode.TEXT)
        elif pol == "drop_first" and self.nth[k] == 1:
            m.drop()

    def run(self, prefix, t: Tally, verbose=False):
        deflate, pol, hold, inj = self.cfg
        self.nth = {"c": 0, "s": 0}
        w = (WSWorld if self.world else WS)(deflate, policy=self.policy, hold=hold)
        try:
            return self._run(w, prefix, t, verbose)
        finally:
            if self.world:
                w.dispose()

    def _run(self, w, prefix, t: Tally, verbose):
        deflate, pol, hold, inj = self.cfg
        todo = {"c": units("c", self.sc, deflate, w.peer["c"]), "s": units("s", self.ss, deflate, w.peer["s"])}
        sent = {"c": {"ping": [], "pong": []}, "s": {"ping": [], "pong": []}}
        injected = {"c": 0, "s": 0}
        first_close = None
        choices, widths, costs, trace = [], [], [], []
        for _ in range(200):
            acts = []
            if w.crash is None:
                if w.held:
                    acts.append("hook")
                for sd in ("c", "s"):
                    if todo[sd]:
                        acts.append(sd)
                if inj and first_close is None:
                    for sd in ("c", "s"):
                        if injected[sd] < 1:
                            acts.append("inj_" + sd)
            # the default (choice 0) must make progress towards the end of the scripts: injections last
            if not acts or all(a.startswith("inj_") for a in acts):
                break
            if len(acts) > 1:
                k = prefix[len(choices)] if len(choices) < len(prefix) else 0
                if k >= len(acts):
                    raise HarnessError("choice out of range while replaying %r" % (prefix,))
                choices.append(k)
                widths.append(len(acts))
                costs.append(0)
                a = acts[k]
            else:
                a = acts[0]
            trace.append(a)
            t.transitions += 1
            if a == "hook":
                w.complete()
            elif a.startswith("inj_"):
                sd = a[-1]
                injected[sd] += 1
                w.inject(sd == "c", True, b"<i" + sd.encode() + E2 + b">")
            else:
                kind, data, meta = todo[a].pop(0)
                if kind == "abort":
                    w.tcp_close(a)
                else:
                    w.wire(a, data)
                if kind in ("ping", "pong"):
                    sent[a][kind].append(meta["payload"])
                if kind in ("close", "abort") and first_close is None and not w.held:
                    first_close = [a, meta]
                if kind in ("close", "abort"):
                    todo[a] = []
            t.state([self.sc, self.ss, list(self.cfg), trace])
        else:
            raise HarnessError("schedule does not terminate")
        while w.held and w.crash is None:
            w.complete()
        self.obs = observation(w)
        if not self.quiet:
            self.judge(w, sent, trace, choices, t, verbose)
        return choices, widths, costs

    def judge(self, w, sent, trace, choices, t: Tally, verbose):
        deflate, pol, hold, inj = self.cfg
        fam = "world" if self.world else "sched"
        case = {"f": fam, "sc": self.sc, "ss": self.ss, "cfg": list(self.cfg), "choices": list(choices)}
        feats = {"family": fam, "deflate": deflate, "policy": pol, "hold": hold, "inject": any(a.startswith("inj_") for a in trace),
                 "close": next((x for x in self.sc + self.ss if x in TERMINAL), "-")}
        rec = w.flow.websocket.messages
        t.case(case if len(t.samples) < 3 and len(trace) >= 5 and "hook" in trace else None, nontrivial=w.seen > 0, key=case)
        t.outcome([feats, [[m.from_client, m.content, m.dropped] for m in rec], w.flow.websocket.close_code,
                   [p.pings + p.pongs for p in w.peer.values()]])
        if verbose:
            print("trace", trace)
            print("recorded", [(m.from_client, str(m.type), m.content, m.dropped, m.injected) for m in rec])
            for sd in ("c", "s"):
                p = w.peer[sd]
                print("peer", sd, "messages", p.messages, "pings", p.pings, "pongs", p.pongs, "closes", p.closes, "errors", p.errors)
            ws_ = w.flow.websocket
            print("close", ws_.close_code, repr(ws_.close_reason), ws_.closed_by_client, "crash", w.crash, "hooks", w.hooks)
        if w.crash is not None:
            t.bad("each_message_once_in_order_same_type", dict(feats, exception=True), case, "no exception", w.crash)
            return
        ws_ = w.flow.websocket
        ended = "websocket_end" in w.hooks
        for sd in ("c", "s"):
            other = "s" if sd == "c" else "c"
            dst = w.peer[other]
            want = [[m.type == Opcode.TEXT, m.content] for m in rec if m.from_client == (sd == "c") and not m.dropped]
            got = [[m[0], m[1]] for m in dst.messages]
            # once the connection has been closed (by either peer) later messages are not relayed any more
            ok = got == want if not ended else (got == want[: len(got)])
            t.judge("each_message_once_in_order_same_type", ok and not dst.errors, feats, case, want, {"got": got, "errors": dst.errors[:1]})
            # pings / pongs: relayed in order; after the close nothing more is owed
            for kind, lst in (("ping", dst.pings), ("pong", dst.pongs)):
                w_ = sent[sd][kind]
                ok = lst == w_ if not ended else lst == w_[: len(lst)]
                t.judge("ping_pong_relayed", ok, feats, case, w_, lst)
        # every data message that was delivered entirely before the end was recorded exactly once
        if ended:
            sd = "c" if ws_.closed_by_client else "s"
            other = "s" if sd == "c" else "c"
            script = self.sc if sd == "c" else self.ss
            term = next((x for x in script if x in TERMINAL), None)
            meta = {"CLOSE": [1000 if sd == "c" else 1001, "bye " + sd + " é"], "CLOSE0": [1005, ""], "ABORT": [1006, None]}.get(term)
            # both peers may have closed; the recorded one must be one that was actually sent by the side named in closed_by_client
            ok = meta is not None and ws_.close_code == meta[0] and (meta[1] is None or ws_.close_reason == meta[1])
            t.judge("close_code_reason_recorded", ok, feats, case, {"by_client": sd == "c", "code_reason": meta},
                    {"by_client": ws_.closed_by_client, "code": ws_.close_code, "reason": ws_.close_reason})
            # the other peer is told the same code / reason (1005/1006 cannot go on the wire: any close frame will do)
            oc = w.peer[other].closes
            if term == "CLOSE":
                t.judge("close_code_reason_recorded", bool(oc) and [int(oc[0][0]), oc[0][1]] == meta, feats, case, meta, oc[:1])
        else:
            t.judge("close_code_reason_recorded", ws_.close_code is None and not any(x in TERMINAL for x in self.sc + self.ss), feats, case,
                    "no close recorded unless a peer closed", {"code": ws_.close_code, "scripts": [self.sc, self.ss]})


# =============================================================================== family "world"

WORLD_SCRIPTS = [[], ["T"], ["T2"], ["B"], ["PING"], ["CLOSE"], ["T", "CLOSE0"], ["B", "ABORT"], ["PONG", "T"]]
WORLD_CONFIGS = [(False, "pass", False, True), (True, "pass", False, False), (False, "longer", True, False), (True, "drop_first", True, False)]


def world_cases():
    out = []
    for sc in WORLD_SCRIPTS:
        for ss in WORLD_SCRIPTS:
            if sc or ss:
                for cfg in WORLD_CONFIGS:
                    out.append({"f": "world", "sc": sc, "ss": ss, "cfg": list(cfg)})
    return out


def run_world(case, t: Tally, verbose=False):
    sc, ss, cfg = case["sc"], case["ss"], tuple(case["cfg"])
    feats = {"family": "world", "deflate": cfg[0], "policy": cfg[1], "hold": cfg[2]}
    for choices in ((), (1,)):
        direct = Sched(sc, ss, cfg, world=False, quiet=True)
        c1 = direct.run(choices, Tally())
        real = Sched(sc, ss, cfg, world=True)
        c2 = real.run(choices, t, verbose=verbose)  # the statement's clauses are judged on the real path as well
        t.executions += 1
        if c1[:2] != c2[:2]:
            raise HarnessError("the two drivers offer different schedules for %r: %r / %r" % (case, c1, c2))
        same = direct.obs == real.obs
        diff = None
        if not same:
            diff = {k: [direct.obs[k], real.obs[k]] for k in direct.obs if direct.obs[k] != real.obs[k]}
        t.judge("direct_driver_matches_real_handshake_path", same, feats, dict(case, choices=list(choices)), None, diff)
        if verbose:
            print("direct", direct.obs)
            print("world ", real.obs)
        if not c1[0]:
            break


# =============================================================================== runner

_N = 2


def sched_specs(n, m, inj_max_items):
    out = []
    for sc in scripts(n):
        for ss in scripts(m):
            if not sc and not ss:
                continue
            for cfg in CONFIGS:
                if cfg[3] and len(sc) + len(ss) > inj_max_items:
                    cfg = cfg[:3] + (False,)  # injections at every point only for the shorter scripts
                out.append((sc, ss, cfg))
    return out


def chunk_fn(items):
    t = Tally()
    for it in items:
        if isinstance(it, dict) and it["f"] == "world":
            run_world(it, t)
        elif isinstance(it, dict):
            run_single(it, t)
        else:
            sc, ss, cfg = it
            _dev_rec(Sched(sc, ss, cfg), (), 0, 0, t)
    return t


def run(ctx):
    n = ctx.pick(2, 2)
    m = ctx.pick(1, 2)
    singles = single_cases(ctx.tier)
    inj_max = 2
    sp = sched_specs(n, m, inj_max)
    if n != m:
        sp += [(ss, sc, cfg) for sc, ss, cfg in sched_specs(n, m, inj_max) if len(ss) < len(sc)]
    ctx.bounds = {"single_cases": len(singles), "payloads": SMALL + SIZES + LONGTEXT + ["bin"], "edits": EDITS,
                  "max_frames_per_message": 3, "tcp_segmentation_cuts": 1,
                  "sched_items": ITEMS, "sched_max_items_per_direction": [n, m], "sched_injections_for_scripts_up_to_items": inj_max, "sched_configs": [list(c) for c in CONFIGS], "sched_specs": len(sp)}
    ctx.log("%d single-message cases, %d schedule specs" % (len(singles), len(sp)))
    # determinism self-test
    a, b = Tally(), Tally()
    x = Sched(["T2", "PING"], ["B", "CLOSE"], CONFIGS[4]).run((1, 0, 1), a)
    y = Sched(["T2", "PING"], ["B", "CLOSE"], CONFIGS[4]).run((1, 0, 1), b)
    if x != y or a.outcomes != b.outcomes:
        raise HarnessError("execution is not deterministic")
    wc = world_cases()
    ctx.bounds["world_cross_check_cases"] = len(wc)
    par.pmap_tally(chunk_fn, singles + sp + wc, ctx.tally, nchunks=16 * 16)


def replay(case, t, verbose=False):
    if case["f"] == "world":
        run_world(case, t, verbose=verbose)
    elif case["f"] in ("single", "inject"):
        run_single(case, t, verbose=verbose)
    else:
        Sched(case["sc"], case["ss"], tuple(case["cfg"])).run(tuple(case["choices"]), t, verbose=verbose)
