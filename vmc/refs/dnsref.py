"""dnsref - an independent RFC 1035 wire decoder and a small compressing message writer.

Written for the verification harness; shares no code with mitmproxy.  Boring on
purpose.  The decoder is *total*: `decode(buf)` returns a message or raises
RefError, never anything else, and never recurses (pointer chains are followed
iteratively with a visited set).

Names are tuples of label byte strings (no text conversion, no case folding): the
property talks about what a DNS decoder reads, and that is octets.

RDATA is decoded by a per-type schema so that the decoder knows where domain names
(and therefore compression pointers) may legitimately be:

    N   domain name, compression allowed (RFC 1035 types and the historically
        compressed ones listed in RFC 3597 section 4)
    n   domain name, compression not allowed by its RFC (expanded all the same if a
        pointer is met: the reader stays total)
    H   16 bit integer     I   32 bit integer     B<k>  k opaque octets
    S   <character-string> S*  zero or more <character-string> up to the end
    R   the rest, opaque

Types without a schema (A6, OPT, unknown ...) are opaque.  RDATA that does not fit
the schema of its type is kept opaque and marked `fits=False`.
"""
from __future__ import annotations

import struct


class RefError(Exception):
    """the octets are not a DNS message (truncated, loop, bad label type, trailing bytes ...)"""

    def __init__(self, kind, detail=""):
        super().__init__("%s %s" % (kind, detail))
        self.kind = kind


A, NS, MD, MF, CNAME, SOA, MB, MG, MR, NULL, WKS, PTR, HINFO, MINFO, MX, TXT = range(1, 17)
RP, AFSDB, RT, SIG, PX, AAAA, NXT, SRV, NAPTR, KX, DNAME, OPT = 17, 18, 21, 24, 26, 28, 30, 33, 35, 36, 39, 41
RRSIG, NSEC, SVCB, HTTPS = 46, 47, 64, 65

TYPE_NAMES = {
    1: "A", 2: "NS", 3: "MD", 4: "MF", 5: "CNAME", 6: "SOA", 7: "MB", 8: "MG", 9: "MR", 10: "NULL", 11: "WKS",
    12: "PTR", 13: "HINFO", 14: "MINFO", 15: "MX", 16: "TXT", 17: "RP", 18: "AFSDB", 21: "RT", 24: "SIG", 26: "PX",
    28: "AAAA", 30: "NXT", 33: "SRV", 35: "NAPTR", 36: "KX", 39: "DNAME", 41: "OPT", 46: "RRSIG", 47: "NSEC",
    64: "SVCB", 65: "HTTPS",
}

SCHEMA = {
    A: ["B4"], NS: ["N"], MD: ["N"], MF: ["N"], CNAME: ["N"], SOA: ["N", "N", "I", "I", "I", "I", "I"],
    MB: ["N"], MG: ["N"], MR: ["N"], PTR: ["N"], HINFO: ["S", "S"], MINFO: ["N", "N"], MX: ["H", "N"],
    TXT: ["S*"], RP: ["N", "N"], AFSDB: ["H", "N"], RT: ["H", "N"], SIG: ["B18", "N", "R"], PX: ["H", "N", "N"],
    AAAA: ["B16"], NXT: ["N", "R"], SRV: ["H", "H", "H", "N"], NAPTR: ["H", "H", "S", "S", "S", "N"],
    KX: ["H", "n"], DNAME: ["n"], RRSIG: ["B18", "n", "R"], NSEC: ["n", "R"], SVCB: ["H", "n", "R"], HTTPS: ["H", "n", "R"],
}


def type_name(t):
    return TYPE_NAMES.get(t, "TYPE%d" % t)


def has_names(rtype):
    """RDATA of this type is defined to contain at least one domain name"""
    return any(f in ("N", "n") for f in SCHEMA.get(rtype, ()))


# ---------------------------------------------------------------------------
# decoding


MAX_NAME = 255


def read_name(buf, off, stay_below=None, max_wire=MAX_NAME, shape=None):
    """-> (labels, offset after the name in the original octet run, offset of the first pointer or None)

    `stay_below`: the uncompressed part of the name must end at or before this offset
    (end of the RDATA / of the message).  `max_wire=None` lifts the 255 octet limit.
    `shape`: optional list that receives the walk, ("L", label) / ("P", target) in order."""
    n = len(buf)
    limit = n if stay_below is None else stay_below
    labels = []
    wire = 1
    pos = off
    after = None
    seen = set()
    first_ptr = None
    while True:
        if pos >= (limit if after is None else n):
            raise RefError("truncated", "name at %d runs past %d" % (off, pos))
        c = buf[pos]
        if c & 0xC0 == 0xC0:
            if pos + 1 >= (limit if after is None else n):
                raise RefError("truncated", "pointer at %d cut" % pos)
            tgt = ((c & 0x3F) << 8) | buf[pos + 1]
            if after is None:
                after = pos + 2
                first_ptr = pos
            if pos in seen:
                raise RefError("loop", "pointer loop through %d" % pos)
            seen.add(pos)
            if tgt >= n:
                raise RefError("badptr", "pointer at %d to %d outside the message" % (pos, tgt))
            if shape is not None:
                shape.append(("P", tgt))
            pos = tgt
            continue
        if c & 0xC0:
            raise RefError("labeltype", "label type %#x at %d" % (c, pos))
        if c == 0:
            pos += 1
            break
        end = pos + 1 + c
        if end > (limit if after is None else n):
            raise RefError("truncated", "label at %d runs past the end" % pos)
        labels.append(bytes(buf[pos + 1:end]))
        if shape is not None:
            shape.append(("L", labels[-1]))
        wire += 1 + c
        if max_wire is not None and wire > max_wire:
            raise RefError("namelen", "name at %d longer than %d octets" % (off, max_wire))
        pos = end
    if after is None:
        after = pos
    return tuple(labels), after, first_ptr


def _fields(buf, off, end, schema, max_wire=MAX_NAME):
    """decode RDATA buf[off:end] by schema -> (fields, genuine pointer positions) or None if it does not fit"""
    out = []
    ptrs = []
    pos = off
    try:
        for f in schema:
            if f in ("N", "n"):
                labels, pos2, p = read_name(buf, pos, stay_below=end, max_wire=max_wire)
                if p is not None:
                    ptrs.append(p - off)
                out.append(("name", labels))
                pos = pos2
            elif f == "H":
                if pos + 2 > end:
                    return None
                out.append(("int", struct.unpack_from("!H", buf, pos)[0]))
                pos += 2
            elif f == "I":
                if pos + 4 > end:
                    return None
                out.append(("int", struct.unpack_from("!I", buf, pos)[0]))
                pos += 4
            elif f[0] == "B":
                k = int(f[1:])
                if pos + k > end:
                    return None
                out.append(("bytes", bytes(buf[pos:pos + k])))
                pos += k
            elif f == "S":
                if pos + 1 > end or pos + 1 + buf[pos] > end:
                    return None
                out.append(("str", bytes(buf[pos + 1:pos + 1 + buf[pos]])))
                pos += 1 + buf[pos]
            elif f == "S*":
                while pos < end:
                    if pos + 1 + buf[pos] > end:
                        return None
                    out.append(("str", bytes(buf[pos + 1:pos + 1 + buf[pos]])))
                    pos += 1 + buf[pos]
            elif f == "R":
                out.append(("bytes", bytes(buf[pos:end])))
                pos = end
            else:  # pragma: no cover
                raise AssertionError(f)
    except RefError:
        return None
    if pos != end:
        return None
    return out, ptrs


def decode(buf, allow_trailing=False, max_wire=MAX_NAME, shapes=None):
    """-> dict; raises RefError.  `shapes`: optional list receiving the walk of every question/owner name"""
    buf = bytes(buf)
    if len(buf) < 12:
        raise RefError("truncated", "header")
    ident, flags, qd, an, ns, ar = struct.unpack_from("!HHHHHH", buf, 0)
    msg = {
        "id": ident, "qr": flags >> 15, "opcode": (flags >> 11) & 15, "aa": (flags >> 10) & 1, "tc": (flags >> 9) & 1,
        "rd": (flags >> 8) & 1, "ra": (flags >> 7) & 1, "z": (flags >> 4) & 7, "rcode": flags & 15,
        "qd": [], "an": [], "ns": [], "ar": [],
    }
    pos = 12
    for _ in range(qd):
        sh = [] if shapes is not None else None
        name, pos, _p = read_name(buf, pos, max_wire=max_wire, shape=sh)
        if shapes is not None:
            shapes.append(sh)
        if pos + 4 > len(buf):
            raise RefError("truncated", "question")
        t, c = struct.unpack_from("!HH", buf, pos)
        pos += 4
        msg["qd"].append({"name": name, "type": t, "class": c})
    for sec, cnt in (("an", an), ("ns", ns), ("ar", ar)):
        for _ in range(cnt):
            start = pos
            sh = [] if shapes is not None else None
            name, pos, _p = read_name(buf, pos, max_wire=max_wire, shape=sh)
            if shapes is not None:
                shapes.append(sh)
            if pos + 10 > len(buf):
                raise RefError("truncated", "record header")
            t, c, ttl, rdlen = struct.unpack_from("!HHIH", buf, pos)
            pos += 10
            end = pos + rdlen
            if end > len(buf):
                raise RefError("truncated", "rdata")
            rr = {"name": name, "type": t, "class": c, "ttl": ttl, "rdata": buf[pos:end], "at": start, "rdata_at": pos}
            dec = _fields(buf, pos, end, SCHEMA[t], max_wire) if t in SCHEMA else None
            if t in SCHEMA and dec is None:
                rr["fits"] = False
                rr["fields"] = None
                rr["ptrs"] = []
            else:
                rr["fits"] = True
                rr["fields"] = dec[0] if dec else None
                rr["ptrs"] = dec[1] if dec else []
            msg[sec].append(rr)
            pos = end
    msg["length"] = pos
    if pos != len(buf) and not allow_trailing:
        raise RefError("trailing", "%d octets after the message" % (len(buf) - pos))
    return msg


def try_decode(buf, allow_trailing=False, max_wire=MAX_NAME, shapes=None):
    """-> (msg, None) or (None, kind)"""
    try:
        return decode(buf, allow_trailing, max_wire, shapes), None
    except RefError as e:
        return None, e.kind


def record_meaning(rr):
    """what a reader takes from one record: owner, type, class, ttl and the RDATA read by its type
    (names expanded) - or the raw octets for opaque types"""
    if rr["fields"] is not None and has_names(rr["type"]):
        data = [list(f) for f in rr["fields"]]
    else:
        data = rr["rdata"]
    return {"name": rr["name"], "type": rr["type"], "class": rr["class"], "ttl": rr["ttl"], "data": data}


HEADER_KEYS = ("id", "qr", "opcode", "aa", "tc", "rd", "ra", "z", "rcode")


def header_meaning(msg):
    d = {k: msg[k] for k in HEADER_KEYS}
    d["counts"] = [len(msg["qd"]), len(msg["an"]), len(msg["ns"]), len(msg["ar"])]
    return d


def question_meaning(msg):
    return [(q["name"], q["type"], q["class"]) for q in msg["qd"]]


def pointer_octets(buf, rr):
    """'none' | 'in-range' | 'out-of-range': does the RDATA hold an octet >= 0xc0 (anywhere, a genuine
    compression pointer included) which, read together with the octet after it, addresses an offset
    inside the message"""
    found = False
    for i, c in enumerate(rr["rdata"]):
        if c >= 0xC0:
            found = True
            p = rr["rdata_at"] + i
            if p + 1 < len(buf) and (((c & 0x3F) << 8) | buf[p + 1]) < len(buf):
                return "in-range"
    return "out-of-range" if found else "none"


def rdata_group(rtype):
    """'name-rdata' (RDATA defined to hold a compressible name), 'charstring' (TXT, HINFO), 'opaque'"""
    if rtype in (TXT, HINFO):
        return "charstring"
    if "N" in SCHEMA.get(rtype, ()):
        return "name-rdata"
    return "opaque"


def max_pointer_hops(buf):
    """the largest number of compression pointers met on the label walk from any offset of buf
    (walks stop at a root octet, an invalid octet, the end of the buffer or a revisited offset)"""
    n = len(buf)
    hops = [None] * n
    best = 0
    for start in range(n):
        if hops[start] is not None:
            continue
        path = []
        onpath = {}
        pos = start
        tail = 0
        while True:
            if pos >= n or pos in onpath:
                tail = 0
                break
            if hops[pos] is not None:
                tail = hops[pos]
                break
            c = buf[pos]
            onpath[pos] = len(path)
            if c >= 0xC0:
                if pos + 1 >= n:
                    path.append((pos, 0))
                    tail = 0
                    break
                path.append((pos, 1))
                pos = ((c & 0x3F) << 8) | buf[pos + 1]
            elif c == 0 or c >= 64:
                path.append((pos, 0))
                tail = 0
                break
            else:
                path.append((pos, 0))
                pos = pos + 1 + c
        for p, isptr in reversed(path):
            tail += isptr
            hops[p] = tail
            if tail > best:
                best = tail
    return best


def name_forms(shape):
    """the oddities of one name walk (see read_name(shape=...)), a subset of
    {'dot-in-label', 'pointer-to-root-after-labels', 'alabel-with-uppercase'}"""
    labels = [x for k, x in shape if k == "L"]
    out = set()
    if any(b"." in l for l in labels):
        out.add("dot-in-label")
    if labels and shape and shape[-1][0] == "P":
        out.add("pointer-to-root-after-labels")
    if any(b"xn--" in l and l != l.lower() for l in labels):
        out.add("alabel-with-uppercase")
    return out


# ---------------------------------------------------------------------------
# writing (the "peer" side: messages as real servers produce them, with compression)


def wire_name(labels, ptr=None):
    out = bytearray()
    for l in labels:
        if not 0 < len(l) < 64:
            raise ValueError("label length")
        out.append(len(l))
        out += l
    if ptr is None:
        out.append(0)
    else:
        out += struct.pack("!H", 0xC000 | ptr)
    return bytes(out)


def flags_word(qr=0, opcode=0, aa=0, tc=0, rd=0, ra=0, z=0, rcode=0):
    return (qr << 15) | (opcode << 11) | (aa << 10) | (tc << 9) | (rd << 8) | (ra << 7) | (z << 4) | rcode


class Writer:
    """sequential message writer; the caller decides where pointers go (offsets are visible)"""

    def __init__(self, ident=0, flags=0):
        self.b = bytearray(struct.pack("!HHHHHH", ident, flags, 0, 0, 0, 0))
        self.counts = [0, 0, 0, 0]

    def here(self):
        return len(self.b)

    def question(self, name_wire, qtype=1, qclass=1):
        at = self.here()
        self.b += name_wire + struct.pack("!HH", qtype, qclass)
        self.counts[0] += 1
        return at

    def record(self, section, name_wire, rtype, rclass, ttl, rdata):
        """section 1..3; rdata may be bytes or a callable(rdata_offset) -> bytes (to place pointers)"""
        at = self.here()
        self.b += name_wire
        rd_at = self.here() + 10
        if callable(rdata):
            rdata = rdata(rd_at)
        self.b += struct.pack("!HHIH", rtype, rclass, ttl, len(rdata)) + rdata
        self.counts[section] += 1
        return at, rd_at

    def done(self):
        struct.pack_into("!HHHH", self.b, 4, *self.counts)
        return bytes(self.b)


def simple_message(ident, flags, questions=(), answers=(), authorities=(), additionals=()):
    """uncompressed message. questions: (labels, type, class); records: (labels, type, class, ttl, rdata)"""
    w = Writer(ident, flags)
    for labels, t, c in questions:
        w.question(wire_name(labels), t, c)
    for sec, rrs in ((1, answers), (2, authorities), (3, additionals)):
        for labels, t, c, ttl, rdata in rrs:
            w.record(sec, wire_name(labels), t, c, ttl, rdata)
    return w.done()


def tcp_frames(stream):
    """split a TCP DNS byte stream into complete frames -> (frames, rest)"""
    out = []
    pos = 0
    while len(stream) - pos >= 2:
        (n,) = struct.unpack_from("!H", stream, pos)
        if len(stream) - pos - 2 < n:
            break
        out.append(bytes(stream[pos + 2:pos + 2 + n]))
        pos += 2 + n
    return out, bytes(stream[pos:])
