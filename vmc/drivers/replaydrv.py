"""replaydrv: the real ClientPlayback addon + ReplayHandler on the virtual loop.

`ClientPlayback.playback()` builds its own `ReplayHandler` (a `ConnectionHandler`, not the
`ProxyConnectionHandler` World drives) per queued flow, reads `ctx.options`, sends hooks
through `ctx.master.addons.handle_lifecycle` and opens upstream sockets with
`asyncio.open_connection`.  All of those seams are already owned by World (patched
opener, process-wide ctx.master/ctx.options, Probe addon), so `ReplayWorld` is an
`EWorld` whose own client-side handler is simply never started: it contributes the
virtual loop, the Master (with the real ClientPlayback addon added), the recording/
suspending Probe, the mock upstream sockets and the log catcher.

    rw = ReplayWorld(policy=..., suspend=...)
    rw.start_playback()                      # ClientPlayback.running(): spawns the playback task
    rw.start_replay([flows]) / rw.stop_replay()
    rw.pending_connects(), rw.connect_ok(e), rw.connect_fail(e), rw.server_send(e, b), rw.server_eof(e)
    rw.complete_hook(i)
    rw.shutdown_playback()                   # ClientPlayback.done(): cancels the playback task
    rw.dispose()
"""
from __future__ import annotations

from mitmproxy import http
from mitmproxy.addons import clientplayback
from mitmproxy.test import tflow

from vmc.drivers.eworld import EWorld


class ReplayWorld(EWorld):
    def __init__(self, policy=None, suspend=None, snap=None, eager=True, opts=None):
        super().__init__(mode="regular", addons=[clientplayback.ClientPlayback()], master_key="replaydrv", policy=policy,
                         suspend=suspend, snap=snap, eager=eager, opts=opts)
        self.cp = self.master.addons.get("clientplayback")
        # the Master (and with it the addon instance) is reused between executions: back to a fresh addon state
        clientplayback.ClientPlayback.__init__(self.cp)
        self.cp.playback_task = None
        self.playback_started = False

    # ------------------------------------------------------------------ the addon's entry points
    def start_playback(self):
        self.playback_started = True
        return self.act(self.cp.running)

    def start_replay(self, flows):
        return self.act(self.cp.start_replay, list(flows))

    def stop_replay(self):
        return self.act(self.cp.stop_replay)

    def shutdown_playback(self):
        """ClientPlayback.done() as the addon manager calls it on shutdown"""

        def go():
            self._done_task = self.loop.create_task(self.cp.done())

        self.raw(go)
        return self.settle()

    # ------------------------------------------------------------------ upstream sockets
    def connect_ok(self, e):
        e.state = "open"
        return self.act(e.connect_fut.set_result, None)

    def connect_fail(self, e, msg="connection refused"):
        e.state = "refused"
        return self.act(e.connect_fut.set_exception, OSError(msg))

    def server_send(self, e, data):
        return self.act(e.send, data)

    def server_eof(self, e):
        e.r.eof = True
        return self.act(e.eof)

    def complete_hook(self, i=0):
        fut = self.suspended[i][2]
        return self.act(lambda: (not fut.done()) and fut.set_result(None))

    def queued(self):
        """flows waiting in the addon's queue (observation only)"""
        return list(self.cp.queue._queue)


# ---------------------------------------------------------------------------------------- flows
def http_flow(marker: str, port=80) -> http.HTTPFlow:
    """a completed, replayable flow: GET http://example.com/<marker> with a recorded response"""
    f = tflow.tflow(resp=True, live=False)
    f.request.host = "example.com"
    f.request.port = port
    f.request.scheme = "http"
    f.request.path = "/" + marker
    f.request.headers["host"] = "example.com"
    f.request.content = b""
    f.response.content = b"old-" + marker.encode()
    return f


def unreplayable(kind: str):
    if kind == "live":
        f = http_flow("LIVE")
        f.live = True
        return f
    if kind == "intercepted":
        f = http_flow("ICPT")
        f.intercept()
        return f
    if kind == "nocontent":
        f = http_flow("NOCT")
        f.request.data.content = None
        return f
    if kind == "norequest":
        f = http_flow("NORQ")
        f.request = None
        return f
    if kind == "tcp":
        f = tflow.ttcpflow()
        f.live = False
        return f
    if kind == "websocket":
        f = tflow.twebsocketflow()
        f.live = False
        return f
    if kind == "dns":
        return tflow.tdnsflow(resp=True, live=False)
    raise ValueError(kind)
