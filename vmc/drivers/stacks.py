"""Helpers shared by the full-stack checks C19/C20/C21/C24 (wrappers around `World`; world.py is not edited).

* `world(...)`  - World() with the process-global `mitmproxy.ctx` pointed at the Master that is about to be
  reused *before* World resets its options.  World caches one Master per `master_key`; when a process
  alternates between keys, `options.reset()` of the cached Master runs the addons' `configure()` while
  `mitmproxy.ctx.options` still belongs to the previous World's Master ("No such option: proxyauth").
* `NullSSL`    - stands in for the pyOpenSSL `SSL.Connection` an addon hands to `tls_start_client` /
  `tls_start_server`: the handshake completes at once and application data is passed through unchanged, so
  the real ClientTLSLayer / ServerTLSLayer / NextLayer run (TLS flags, SNI, hooks, tunnel states) while the
  bytes inside the "TLS" tunnel stay observable.  The client side swallows exactly the ClientHello.
* `client_hello(sni)` - bytes of a real TLS ClientHello produced by stdlib `ssl` (not by mitmproxy / pyOpenSSL).
"""
from __future__ import annotations

import ssl

import mitmproxy.ctx as _mctx
from OpenSSL import SSL

from vmc.drivers import world as _world


def prime_ctx(master_key, addons=()):
    key = master_key if master_key is not None else ("default" if not addons else None)
    cached = _world._MASTERS.get(key) if key is not None else None
    if cached is not None:
        _mctx.master = cached[0]
        _mctx.options = cached[0].options


def world(*a, **kw):
    prime_ctx(kw.get("master_key"), kw.get("addons") or ())
    return _world.World(*a, **kw)


class NullSSL:
    """identity 'cipher' with the part of the SSL.Connection interface that TLSLayer uses"""

    def __init__(self, server_side: bool, alpn: bytes = b""):
        self.server_side = server_side  # True: mitmproxy is the TLS server (client connection)
        self.inbound = bytearray()
        self.outbound = bytearray()
        self.done = False
        self.alpn = alpn
        self.hello = b""

    # -- BIO side
    def bio_write(self, data):
        self.inbound.extend(data)
        return len(data)

    def bio_read(self, n):
        if not self.outbound:
            raise SSL.WantReadError()
        out = bytes(self.outbound[:n])
        del self.outbound[:n]
        return out

    def do_handshake(self):
        if not self.done:
            if self.server_side:
                # what arrived so far is the ClientHello (ClientTLSLayer buffered it until it parsed)
                self.hello = bytes(self.inbound)
                self.inbound.clear()
            self.done = True

    # -- application side
    def recv(self, n):
        if not self.inbound:
            raise SSL.WantReadError()
        out = bytes(self.inbound[:n])
        del self.inbound[:n]
        return out

    def sendall(self, data):
        self.outbound.extend(data)

    def get_shutdown(self):
        return 0

    # -- post-handshake attributes
    def get_peer_cert_chain(self):
        return []

    def get_peer_certificate(self):
        return None

    def get_alpn_proto_negotiated(self):
        return self.alpn

    def get_cipher_name(self):
        return "NULL-IDENTITY"

    def get_protocol_version_name(self):
        return "TLSv1.3"


def null_tls_policy(name, data, world):
    """addon behaviour: provide the NullSSL object where TlsConfig would provide an OpenSSL connection"""
    if name == "tls_start_client":
        data.ssl_conn = NullSSL(True)
    elif name == "tls_start_server":
        data.ssl_conn = NullSSL(False)


_HELLO_CACHE: dict = {}


def client_hello(sni: str | None, alpn=None) -> bytes:
    """a complete first flight (one TLS record with a ClientHello) from the stdlib ssl client"""
    key = (sni, tuple(alpn or ()))
    if key not in _HELLO_CACHE:
        ctx = ssl.SSLContext(ssl.PROTOCOL_TLS_CLIENT)
        ctx.check_hostname = False
        ctx.verify_mode = ssl.CERT_NONE
        if alpn:
            ctx.set_alpn_protocols(list(alpn))
        inc, out = ssl.MemoryBIO(), ssl.MemoryBIO()
        obj = ctx.wrap_bio(inc, out, server_hostname=sni)
        try:
            obj.do_handshake()
        except ssl.SSLWantReadError:
            pass
        _HELLO_CACHE[key] = out.read()
    return _HELLO_CACHE[key]
