"""Regenerate /verif/MANIFEST.json from the META blocks of checks/cNN.py.

usage: PYTHONPATH=/verif /venv/bin/python -B tools/gen_manifest.py
Properties without a check module are listed under not_applicable with the reason
from tools/not_applicable.json (or a generic "not built" reason).
"""
import importlib
import json
import os
import subprocess
import sys

ROOT = os.path.dirname(os.path.dirname(os.path.abspath(__file__)))
sys.path.insert(0, ROOT)

ENGINE_NAMES = {
    "model_checking": "explore",
    "exploration": "enumerate",
    "fault_enumeration": "faults",
}


def main():
    props = [json.loads(l) for l in open(os.path.join(ROOT, "properties.jsonl"))]
    na_path = os.path.join(ROOT, "tools", "not_applicable.json")
    na_reasons = json.load(open(na_path)) if os.path.exists(na_path) else {}
    checks, na = [], []
    served = {}
    # only checks that have been vetted on the unchanged tree are claimed
    vetted = set(json.load(open(os.path.join(ROOT, "tools", "claimed.json"))))
    for p in props:
        pid = p["id"]
        path = os.path.join(ROOT, "checks", pid.lower() + ".py")
        if not os.path.exists(path) or pid in na_reasons or pid not in vetted:
            na.append({"property_id": pid, "reason": na_reasons.get(pid, "no check has been built for this property yet; it is not claimed (design in DESIGN.md section 3)")})
            continue
        mod = importlib.import_module("checks." + pid.lower())
        m = mod.META
        eng = ENGINE_NAMES.get(m["level"], "explore")
        served.setdefault(eng, []).append(pid)
        entry = {
            "property_id": pid,
            "quick_cmd": "./check %s --tier quick" % pid,
            "thorough_cmd": "./check %s --tier thorough" % pid,
            "evidence_file": "/verif/evidence/%s.json" % pid,
            "replay_cmd_template": "./check %s --replay {path}" % pid,
            "engine": eng,
            "level_claimed": {
                "category": m["level"],
                "text": m.get("claim") or m["rule"],
                "design_ref": "DESIGN.md section 3, %s" % pid,
            },
            "level_note": "; ".join(m.get("assumptions", [])) or "mitmproxy's third-party libraries and the Python runtime are trusted",
            "technique": m["technique"],
        }
        checks.append(entry)
    hooks_commits = []
    hp = os.path.join(ROOT, "tools", "hook_commits.json")
    if os.path.exists(hp):
        hooks_commits = json.load(open(hp))
    doc = {
        "version": 1,
        "setup_cmd": "./setup.sh",
        "hooks": {
            "guard": "MITMPROXY_VERIF",
            "enable": "environment variable MITMPROXY_VERIF=1 (set by ./check); no source hook is currently needed: every seam is reached by constructing objects and replacing module attributes from the checker process",
            "baseline_off_cmd": "cd /repo && env -u MITMPROXY_VERIF /venv/bin/python -m pytest -ra -q -p no:cacheprovider --timeout=900 --continue-on-collection-errors",
            "source_commits": hooks_commits,
            "add_only": True,
        },
        "engines": [
            {"name": "explore", "path": "vmc/explore.py", "serves_properties": served.get("explore", []),
             "kind_free_text": "explicit-state model checking on the implementation: BFS over action histories with fingerprint de-duplication, and deviation-bounded DFS over schedules; every transition calls the real mitmproxy code"},
            {"name": "enumerate", "path": "vmc/par.py", "serves_properties": served.get("enumerate", []),
             "kind_free_text": "bounded-exhaustive enumeration of a finite input grammar / configuration product, each case executed on the real code and judged by named oracle clauses"},
            {"name": "faults", "path": "vmc/par.py", "serves_properties": served.get("faults", []),
             "kind_free_text": "exhaustive crash-point / truncation enumeration over real write histories"},
        ],
        "checks": checks,
        "not_applicable": na,
        "notes": "All checks are deterministic (VERIF_SEED is recorded, no random choice is made). Known genuine defects are listed in known_findings.json and reported as KNOWN-FINDING lines.",
    }
    out = os.path.join(ROOT, "MANIFEST.json")
    with open(out, "w") as f:
        json.dump(doc, f, indent=1)
        f.write("\n")
    vt = "/opt/veriftools/pyvenv/bin/python"
    if os.path.exists(vt):
        code = "import json,sys,jsonschema;jsonschema.validate(json.load(open(sys.argv[1])), json.load(open('/root/.vp/MANIFEST.schema.json')))"
        r = subprocess.run([vt, "-c", code, out], capture_output=True, text=True)
        print("manifest valid" if r.returncode == 0 else "MANIFEST INVALID:\n" + r.stderr[-2000:])
    print("claimed: %d, not claimed: %d" % (len(checks), len(na)))


if __name__ == "__main__":
    main()
