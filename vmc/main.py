"""Runner: ./check <ID> [--tier quick|thorough] [--replay FILE]

exit 0  property held on everything explored (listed known findings allowed)
exit 1  an unlisted violation: a line `VIOLATION property=<id> replay=<path>` is printed
exit 2  harness error (nondeterminism detected, import failure, invalid evidence)
"""
from __future__ import annotations

import argparse
import importlib
import json
import os
import subprocess
import sys
import time
import traceback

from vmc.tally import HarnessError, Tally, digest, jdump, unj

ROOT = os.path.dirname(os.path.dirname(os.path.abspath(__file__)))


class Ctx:
    def __init__(self, pid, tier, seed):
        self.pid = pid
        self.tier = tier
        self.seed = seed
        self.tally = Tally()
        self.bounds: dict = {}
        self.exhaustive = True
        self.caps: list[str] = []
        self.assumptions: list[str] = []
        self.info: dict = {}
        self.t0 = time.time()

    @property
    def thorough(self):
        return self.tier == "thorough"

    def pick(self, quick, thorough):
        return thorough if self.tier == "thorough" else quick

    def log(self, *a):
        print("[%s %6.1fs]" % (self.pid, time.time() - self.t0), *a, flush=True)

    def cap(self, what):
        """a bound other than the stated one was hit: the run is not exhaustive"""
        self.exhaustive = False
        self.caps.append(what)


def load_findings(pid):
    """known findings are committed per property in findings/<pid>.json (read-only at run time);
    known_findings.json at the top level is the generated aggregate of those files"""
    path = os.path.join(ROOT, "findings", "%s.json" % pid)
    if not os.path.exists(path):
        return []
    with open(path) as f:
        data = json.load(f)
    return [e for e in data.get("findings", []) if e.get("property") == pid and e.get("status") == "known"]


def matches(entry, clause, features):
    if entry.get("clause") != clause:
        return False
    for k, want in (entry.get("match") or {}).items():
        have = features.get(k, None)
        if isinstance(want, list):
            if have not in want:
                return False
        elif have != want:
            return False
    return True


def classify(pid, tally: Tally):
    """split violations into known (matched by a committed finding) and new"""
    findings = load_findings(pid)
    known: dict[str, list] = {}
    new = []
    for key in sorted(tally.violations):
        lst = tally.violations[key]
        v = lst[0]
        hit = None
        for e in findings:
            if matches(e, v.clause, v.features):
                hit = e
                break
        if hit is not None:
            known.setdefault(hit["id"], [hit, 0, v])
            known[hit["id"]][1] += tally.vcount[key]
        else:
            new.append((key, lst, tally.vcount[key]))
    stale = [e["id"] for e in findings if e["id"] not in known]
    return known, new, stale


def write_replay(pid, tier, v):
    os.makedirs(os.path.join(ROOT, "replays"), exist_ok=True)
    doc = {"property": pid, "tier": tier, **v.to_json()}
    path = os.path.join(ROOT, "replays", "%s-%s.json" % (pid, digest(jdump(doc))))
    with open(path, "w") as f:
        f.write(json.dumps(json.loads(jdump(doc)), indent=1))
    return path


def validate_evidence(path):
    vt = "/opt/veriftools/pyvenv/bin/python"
    schema = "/root/.vp/EVIDENCE.schema.json"
    if not (os.path.exists(vt) and os.path.exists(schema)):
        return None
    code = (
        "import json,sys,jsonschema;"
        "jsonschema.validate(json.load(open(sys.argv[1])), json.load(open(sys.argv[2])))"
    )
    r = subprocess.run([vt, "-c", code, path, schema], capture_output=True, text=True)
    if r.returncode != 0:
        return r.stderr[-1500:]
    return None


def write_evidence(ctx: Ctx, meta, known, new, stale, wall):
    t = ctx.tally
    level = meta["level"]
    cov = {
        "evaluations": max(t.evaluations, t.executions),
        "distinct_nontrivial": len(t.nontrivial),
        "rule": meta.get("rule", ""),
        "samples": json.loads(jdump(t.samples)) or ["(no sample recorded)"],
        "exhaustive": bool(ctx.exhaustive),
        "bounds": ctx.bounds,
        "clauses_held": dict(sorted(t.clauses.items())),
        "distinct_outcomes": len(t.outcomes),
        "known_findings_hit": {k: v[1] for k, v in sorted(known.items())},
        "known_findings_stale": stale,
        "new_violation_keys": len(new),
        "harness_notes": dict(sorted(t.notes.items())),
    }
    if ctx.caps:
        cov["caps_hit"] = ctx.caps
    cov.update({k: v for k, v in sorted(t.extra.items())})
    cov.update(ctx.info)
    if level == "model_checking":
        cov["states"] = t.states + len(t.state_set)
        cov["transitions"] = t.transitions
        # every transition is executed on the implementation itself: each explored
        # execution *is* a trace validated against the implementation
        cov["traces_validated_against_impl"] = t.executions
        cov["executions"] = t.executions
        cov["max_depth"] = t.max_depth
    doc = {
        "property_id": ctx.pid,
        "tier": ctx.tier,
        "seed": ctx.seed,
        "level": level,
        "coverage": cov,
        "assumptions": list(meta.get("assumptions", [])) + ctx.assumptions,
        "wall_s": round(wall, 2),
        "violations": sum(n for _, _, n in new),
    }
    os.makedirs(os.path.join(ROOT, "evidence"), exist_ok=True)
    path = os.path.join(ROOT, "evidence", "%s.json" % ctx.pid)
    with open(path, "w") as f:
        json.dump(doc, f, indent=1, sort_keys=True)
        f.write("\n")
    return path


def main(argv=None):
    ap = argparse.ArgumentParser()
    ap.add_argument("pid")
    ap.add_argument("--tier", default=None)
    ap.add_argument("--replay", default=None)
    args = ap.parse_args(argv)
    pid = args.pid.upper()
    tier = os.environ.get("VERIF_TIER") or args.tier or "quick"
    if tier not in ("quick", "thorough"):
        tier = "quick"
    try:
        seed = int(os.environ.get("VERIF_SEED", "0"))
    except ValueError:
        seed = 0

    try:
        mod = importlib.import_module("checks.%s" % pid.lower())
    except Exception:
        traceback.print_exc()
        print("HARNESS-ERROR property=%s cannot import check or mitmproxy" % pid)
        return 2
    meta = mod.META
    ctx = Ctx(pid, tier, seed)
    import mitmproxy

    print("[%s] mitmproxy under test: %s" % (pid, os.path.dirname(mitmproxy.__file__)), flush=True)

    if args.replay:
        with open(args.replay) as f:
            doc = unj(json.load(f))
        print("replaying %s clause=%s features=%s" % (args.replay, doc.get("clause"), doc.get("features")))
        t = Tally()
        mod.replay(doc["case"], t, verbose=True)
        bad = 0
        for key, lst in t.violations.items():
            for v in lst:
                bad += 1
                print("REPRODUCED clause=%s features=%s\n  expected=%s\n  observed=%s" % (
                    v.clause, jdump(v.features), jdump(v.expected), jdump(v.observed)))
        if not bad:
            print("not reproduced (clauses held: %s)" % dict(t.clauses))
        return 1 if bad else 0

    t0 = time.time()
    try:
        mod.run(ctx)
    except HarnessError as e:
        traceback.print_exc()
        print("HARNESS-ERROR property=%s %s" % (pid, e))
        return 2
    except Exception:
        traceback.print_exc()
        print("HARNESS-ERROR property=%s unexpected exception in the checker" % pid)
        return 2
    wall = time.time() - t0

    known, new, stale = classify(pid, ctx.tally)
    path = write_evidence(ctx, meta, known, new, stale, wall)
    err = validate_evidence(path)
    if err:
        print("HARNESS-ERROR property=%s evidence does not validate: %s" % (pid, err))
        return 2

    t = ctx.tally
    print("[%s] tier=%s evaluations=%d executions=%d states=%d transitions=%d distinct_nontrivial=%d outcomes=%d exhaustive=%s wall=%.1fs" % (
        pid, tier, t.evaluations, t.executions, t.states + len(t.state_set), t.transitions, len(t.nontrivial), len(t.outcomes), ctx.exhaustive, wall))
    for c, n in sorted(t.clauses.items()):
        print("  clause %-45s held %d" % (c, n))
    for fid, (entry, n, v) in sorted(known.items()):
        print("KNOWN-FINDING: property=%s %s [%s: %s; %d cases]" % (pid, entry["id"], entry["clause"], entry.get("what", ""), n))
    for fid in stale:
        print("note: known finding %s did not reproduce in this run (stale or outside this tier's bound)" % fid)
    if not new:
        return 0
    limit = int(os.environ.get("VERIF_MAXVIOL", "12"))
    for key, lst, n in new[:limit]:
        v = lst[0]
        rp = write_replay(pid, tier, v)
        print("VIOLATION property=%s replay=%s" % (pid, rp))
        print("  clause=%s features=%s count=%d\n  expected=%s\n  observed=%s" % (
            v.clause, jdump(v.features), n, jdump(v.expected)[:400], jdump(v.observed)[:400]))
    if len(new) > limit:
        print("  ... and %d more distinct (clause, features) keys; per clause:" % (len(new) - limit))
        per = {}
        for key, lst, n in new:
            per[key[0]] = per.get(key[0], 0) + 1
        for c, k in sorted(per.items()):
            print("      %-40s %d keys" % (c, k))
    if os.environ.get("VERIF_VIOLSUMMARY"):
        for key, lst, n in new:
            print("  VKEY %s %s n=%d" % (key[0], key[1], n))
    return 1


if __name__ == "__main__":
    sys.exit(main())
