"""EWorld: `World` on a virtual loop on which asyncio's eager task factory really is eager.

Production mitmproxy runs with `asyncio.eager_task_factory` (Master.run).  `VLoop(eager=True)`
installs that factory, but `Task.__init__` only starts a task eagerly when
`loop.is_running()`, and `VLoop` never reports itself as running (it never enters
`run_forever`), so on a plain `World` every task start is deferred to the next loop
iteration.  Both orders are legitimate schedules; the eager one is what ships.  `ELoop`
reports `is_running()` while it executes callbacks or an environment action, nothing else
is changed.  `EWorld(eager=False)` behaves exactly like `World`.
"""
from __future__ import annotations

import vmc.drivers.world as wm
from vmc.vloop import VLoop


class ELoop(VLoop):
    _really_eager = False
    _inside = 0

    def __init__(self, eager=True):
        super().__init__(eager=eager)
        self._really_eager = eager
        self._inside = 0

    def is_running(self):
        return self._really_eager and self._inside > 0

    def quiesce(self, limit=100000):
        self._inside += 1
        try:
            return super().quiesce(limit)
        finally:
            self._inside -= 1

    def call_in_loop(self, fn, *a):
        self._inside += 1
        try:
            return super().call_in_loop(fn, *a)
        finally:
            self._inside -= 1


class EWorld(wm.World):
    def __init__(self, *a, **kw):
        saved = wm.VLoop
        wm.VLoop = ELoop
        try:
            super().__init__(*a, **kw)
        finally:
            wm.VLoop = saved

    def run_limited(self, limit=400):
        """quiesce with a small step limit (raises RuntimeError when the loop spins at a frozen clock)"""
        wm._CURRENT = self
        return self.loop.quiesce(limit=limit)
