"""C04 - blocked layers handle every event exactly once, in order.

Engine X, full BFS.  The system under test is the real `Layer.handle_event /
__process / __continue`, the real `NextLayer` and the real `TunnelLayer`; the only
code written here are *probe layers*: `Layer` subclasses whose `_handle_event` logs
entry, yields a scripted list of blocking / non-blocking commands carrying unique
tokens, logs every value sent into the generator, and logs exit.

A history is a sequence of environment actions
    ("topo", name, debug)                    choose the layer stack
    ("ev", kind, prog..., [param])           deliver the next event; the programs the
                                             probe layers will run for it are fixed now
    ("done", token, arg)                     complete one outstanding blocking command
and the BFS explores *every* such sequence up to n events (all interleavings of
arrivals with completions, every completion order when several are outstanding).

Oracle = sequential semantics, per probe layer L: given the events that were
addressed to L (in arrival order at the top of the stack), the programs and the
replies delivered so far, the log L *must* have is
    enter e1, (yield t, sent reply(t))*, exit e1, enter e2, ...
cut at the first blocking command that has no reply yet.  The observed log must
equal it whenever no layer above L is itself waiting, and be a prefix of it otherwise.
"""
from __future__ import annotations

import types
from dataclasses import dataclass

from mitmproxy import connection
from mitmproxy.connection import ConnectionState
from mitmproxy.proxy import commands, context, events, layer, tunnel

from vmc import explore, par
from vmc.tally import HarnessError, Tally, digest

META = {
    "level": "model_checking",
    "technique": "explicit-state BFS over all interleavings of event arrivals and command completions on the real Layer/NextLayer/TunnelLayer pause-resume machinery, probe layers as children, sequential-semantics reference log as oracle",
    "claim": "for every stack (single layer, tunnel parent + child incl. handshake buffering and tunnelled opens, two siblings under a multiplexing parent, NextLayer with the decision at any ask, tunnel + NextLayer) and every schedule of <= n events with 0-2 blocking commands each, every probe layer's observed log equals the sequential reference: each event once, in arrival order, no entry while waiting, every yield resumed with its own reply, layers above a waiting layer keep running, pre-decision events replayed in order",
    "rule": "a case is one BFS transition (history of topo/event/completion actions); distinct = distinct fingerprint (stack, delivered events with their programs, probe logs, queues, outstanding commands); non-trivial = at least one blocking command was yielded in the history",
    "assumptions": [
        "probe layers stand in for protocol layers: they use the public Layer contract only (yield commands from _handle_event)",
        "blocking operations: a custom blocking Command with its CommandCompleted subclass (token replies), a real blocking StartHook (reply None), real OpenConnection (reply None / error string)",
        "completions are only delivered for commands that were emitted and are outstanding (what server.py does); 'foreign' completions (a command of some other layer) are delivered as ordinary events",
    ],
}

# ----------------------------------------------------------------------------- probe commands / layers


class ProbeCmd(commands.Command):
    blocking = True

    def __init__(self, tok):
        self.tok = tok

    def __repr__(self):
        return "ProbeCmd(%s)" % self.tok


@dataclass(repr=False)
class ProbeCmdCompleted(events.CommandCompleted):
    command: ProbeCmd
    reply: str


@dataclass
class C04ProbeHook(commands.StartHook):
    data: str


def run_prog(sys_, lay, who, ev, state="A"):
    """the body of every probe layer: scripted commands for event `ev`.
    `state` names the state handler that was invoked for the event (layers switch state by assigning
    self._handle_event, like TCPLayer.start -> relay_messages -> done); op "S" switches it without blocking."""
    log = sys_.logs[who]
    log.append(["enter", ev, state])
    prog = sys_.progs.get(who + ":" + ev, "")
    ctx = lay.context
    for i, op in enumerate(prog):
        tok = "%s:%s:%d" % (who, ev, i)
        if op == "S":
            state = "B" if state == "A" else "A"
            lay._handle_event = lay.state_b if state == "B" else lay.state_a
            continue
        if op == "B":
            cmd = ProbeCmd(tok)
        elif op == "H":
            cmd = C04ProbeHook(tok)
        elif op == "O":
            cmd = commands.OpenConnection(ctx.server)
            sys_.cmd_tok[id(cmd)] = (tok, cmd)
        elif op == "N":
            cmd = commands.SendData(ctx.client, tok.encode())
        else:  # pragma: no cover
            raise HarnessError("unknown op %r" % op)
        log.append(["yield", tok])
        got = yield cmd
        log.append(["sent", tok, got])


class Probe(layer.Layer):
    def __init__(self, ctx, who, sys_):
        super().__init__(ctx)
        self.who, self.sys = who, sys_

    def state_a(self, event):
        ev = self.sys.name_of(event)
        yield from run_prog(self.sys, self, self.who, ev, "A")
        self.sys.logs[self.who].append(["exit", ev])

    def state_b(self, event):
        ev = self.sys.name_of(event)
        yield from run_prog(self.sys, self, self.who, ev, "B")
        self.sys.logs[self.who].append(["exit", ev])

    _handle_event = state_a


class ProbeTunnel(tunnel.TunnelLayer):
    """TunnelLayer whose protocol callbacks run a program (like the TLS layers' hooks) and then
    do what the base class does.  hs = number of data events the handshake consumes."""

    def __init__(self, ctx, tconn, conn, sys_, hs):
        super().__init__(ctx, tconn, conn)
        self.sys, self.hs = sys_, hs

    def receive_handshake_data(self, data):
        if not data or self.hs == 0:
            # the b"" kick from start_handshake; with hs == 0 the tunnel is up at once
            return (self.hs == 0), None
        ev = data.decode()
        yield from run_prog(self.sys, self, "P", ev)
        self.sys.logs["P"].append(["exit", ev])
        return True, None

    def receive_data(self, data):
        ev = data.decode()
        yield from run_prog(self.sys, self, "P", ev)
        yield from super().receive_data(data)
        self.sys.logs["P"].append(["exit", ev])


class Mux(layer.Layer):
    """a parent with two children, routing like HttpLayer / RawQuicLayer do (command_sources)"""

    def __init__(self, ctx, sys_):
        super().__init__(ctx)
        self.sys = sys_
        self.a = Probe(ctx.fork(), "A", sys_)
        self.b = Probe(ctx.fork(), "B", sys_)
        self.src = {}

    def _handle_event(self, event):
        if isinstance(event, events.CommandCompleted):
            # a child's completion: pure routing, no program of its own
            kid = self.src.pop(event.command)
            for cmd in kid.handle_event(event):
                if cmd.blocking:
                    self.src[cmd] = kid
                yield cmd
            return
        ev = self.sys.name_of(event)
        yield from run_prog(self.sys, self, "M", ev)
        if isinstance(event, events.Start):
            kids = [self.a, self.b]
        elif event.connection is self.context.client:
            kids = [self.a]
        else:
            kids = [self.b]
        for kid in kids:
            for cmd in kid.handle_event(event):
                if cmd.blocking:
                    self.src[cmd] = kid
                yield cmd
        self.sys.logs["M"].append(["exit", ev])


# ----------------------------------------------------------------------------- the system

TOPOS = ["single", "tunnel", "tunnel_open", "mux", "nextlayer", "tunnel_nextlayer"]
BLOCKING = "BHO"


class Sys:
    def __init__(self):
        self.topo = None
        self.debug = False
        self.n = 0  # events delivered (names e0, e1, ...)
        self.arrivals = []  # [name, kind]
        self.progs = {}  # "who:ev" -> program
        self.logs = {}
        self.cmd_tok = {}
        self.outstanding = {}  # tok -> command
        self.replies = {}  # tok -> [reply]
        self.emitted = 0
        self.crash = None
        self.asks = 0
        self.opens = 0
        self.decided = None  # number of arrivals at the time of the decision
        self.hs = 0
        self.ask_on_start = False
        self.link = {}  # tunnel's own open -> child's open token
        self.anomalies = []
        self.foreign = {}
        self.close_name = {}  # "c"/"s" -> name of the ConnectionClosed event of that connection

    # -- construction
    def setup(self, topo, debug):
        self.topo, self.debug = topo, debug
        client = connection.Client(peername=("192.0.2.10", 51000), sockname=("192.0.2.1", 8080), state=ConnectionState.OPEN)
        self.ctx = context.Context(client, types.SimpleNamespace(proxy_debug=debug))
        self.ctx.server.address = ("198.51.100.7", 80)
        self.real = {}  # name -> real layer objects whose queues go into the fingerprint
        if topo == "single":
            self.top = Probe(self.ctx, "L", self)
            self.logs = {"L": []}
            self.real = {"L": self.top}
        elif topo == "mux":
            self.top = Mux(self.ctx, self)
            self.logs = {"M": [], "A": [], "B": []}
            self.real = {"M": self.top, "A": self.top.a, "B": self.top.b}
        elif topo in ("nextlayer", "tunnel_nextlayer", "tunnel", "tunnel_open"):
            self.top = None  # built when the Start event fixes the parameters
            self.logs = {"C": []} if topo != "tunnel" else {"P": [], "C": []}

    def _build_late(self, param):
        topo = self.topo
        if topo == "nextlayer":
            self.ask_on_start = bool(param)
            self.nl = layer.NextLayer(self.ctx, ask_on_start=self.ask_on_start)
            self.top = self.nl
            self.child = Probe(self.ctx, "C", self)
            self.real = {"NL": self.nl, "C": self.child}
        elif topo == "tunnel_nextlayer":
            self.ask_on_start = False
            self.top = tunnel.TunnelLayer(self.ctx, self.ctx.client, self.ctx.client)
            self.nl = self.top.child_layer
            self.child = Probe(self.ctx, "C", self)
            self.real = {"T": self.top, "NL": self.nl, "C": self.child}
        elif topo == "tunnel":
            self.hs = int(param)
            self.top = ProbeTunnel(self.ctx, self.ctx.client, self.ctx.client, self, self.hs)
            self.child = Probe(self.ctx, "C", self)
            self.top.child_layer = self.child
            self.real = {"T": self.top, "C": self.child}
        elif topo == "tunnel_open":
            proxy = connection.Server(address=("203.0.113.9", 3128))
            self.top = ProbeTunnel(self.ctx, proxy, self.ctx.server, self, 0)
            self.child = Probe(self.ctx, "C", self)
            self.top.child_layer = self.child
            self.real = {"T": self.top, "C": self.child}

    # -- naming
    def name_of(self, event):
        if isinstance(event, events.Start):
            return "e0"
        if isinstance(event, events.DataReceived):
            return event.data.decode()
        if isinstance(event, events.ConnectionClosed):
            side = "c" if event.connection is self.ctx.client else "s"
            return self.close_name.get(side, "close:" + side)
        if isinstance(event, events.CommandCompleted):
            c = event.command
            if isinstance(c, C04ProbeHook) and self.foreign.get(c.data) is c:
                return c.data
            # a completion of some layer's own command handed to _handle_event as if it were an event
            return "done:%s" % (self.tok_of_cmd(c) or type(c).__name__)
        raise HarnessError("probe got an event it cannot name: %r" % (event,))

    def tok_of_cmd(self, c):
        if isinstance(c, ProbeCmd):
            return c.tok
        if isinstance(c, C04ProbeHook):
            return c.data
        if id(c) in self.cmd_tok:
            return self.cmd_tok[id(c)][0]
        return None

    # -- driving
    def feed(self, event):
        if self.crash is not None:
            return
        try:
            cmds = list(self.top.handle_event(event))
        except HarnessError:
            raise
        except BaseException as e:  # noqa
            if isinstance(e, KeyboardInterrupt):
                raise
            self.crash = "%s: %s" % (type(e).__name__, e)
            return
        for c in cmds:
            self.on_command(c)

    def on_command(self, c):
        self.emitted += 1
        if isinstance(c, layer.NextLayerHook):
            tok = "NL:ask%d" % self.asks
            self.asks += 1
        elif isinstance(c, commands.OpenConnection):
            tok = self.tok_of_cmd(c)
            if tok is None:
                # the tunnel's own open, issued on behalf of the child's open that is in flight
                tok = "T:open%d" % self.opens
                self.opens += 1
                pend = [t for (t, cc) in self.cmd_tok.values() if t not in self.replies and t not in self.outstanding and t not in self.link.values()]
                if len(pend) == 1:
                    self.link[tok] = pend[0]
                else:
                    self.anomalies.append("tunnel open without a unique child open: %r" % (pend,))
        elif isinstance(c, (ProbeCmd, C04ProbeHook)):
            tok = self.tok_of_cmd(c)
        else:
            return
        # server.py completes a hook iff hook.blocking is truthy; opens always
        if not (c.blocking or isinstance(c, commands.OpenConnection)):
            self.anomalies.append("blocking command %s emitted with blocking=%r" % (tok, c.blocking))
            return
        if tok in self.outstanding or tok in self.replies:
            self.anomalies.append("command %s emitted twice" % tok)
            return
        self.outstanding[tok] = c

    def deliver(self, kind, progs, param=None):
        name = "e%d" % self.n
        if kind == "S":
            if self.n != 0:
                raise HarnessError("Start must be first")
            if self.top is None:
                self._build_late(param)
            ev = events.Start()
        elif kind == "D":
            ev = events.DataReceived(self.ctx.client, name.encode())
        elif kind == "Y":
            ev = events.DataReceived(self.ctx.server, name.encode())
        elif kind == "F":
            hook = C04ProbeHook(name)
            self.foreign[name] = hook
            ev = events.HookCompleted(hook)
        elif kind in ("Z", "K"):
            # the server (Z) / the client (K) closes; a connection closes once, so the event is named by its connection
            conn = self.ctx.server if kind == "Z" else self.ctx.client
            conn.state &= ~ConnectionState.CAN_READ  # what server.py does before it sends the event
            self.close_name["s" if kind == "Z" else "c"] = name
            ev = events.ConnectionClosed(conn)
        else:  # pragma: no cover
            raise HarnessError(kind)
        self.n += 1
        self.arrivals.append([name, kind])
        for who, p in progs.items():
            if p:
                self.progs[who + ":" + name] = p
        self.feed(ev)

    def complete(self, tok, arg):
        c = self.outstanding.pop(tok)
        if isinstance(c, ProbeCmd):
            reply = "r:" + tok
            ev = ProbeCmdCompleted(c, reply)
        elif isinstance(c, layer.NextLayerHook):
            reply = None
            if arg:
                c.data.layer = self.child
                self.decided = len(self.arrivals)
            ev = events.HookCompleted(c)
        elif isinstance(c, C04ProbeHook):
            reply = None
            ev = events.HookCompleted(c)
        elif isinstance(c, commands.OpenConnection):
            reply = arg
            if reply is None:
                c.connection.state = ConnectionState.OPEN  # what server.open_connection does
            ev = events.OpenConnectionCompleted(c, reply)
            if tok in self.link:
                self.replies[self.link[tok]] = [reply]
        else:  # pragma: no cover
            raise HarnessError("cannot complete %r" % c)
        self.replies[tok] = [reply]
        self.feed(ev)

    # -- reference
    def layers(self):
        return list(self.logs)

    def ancestors(self, who):
        """owners of tokens that hold events back from `who` while outstanding"""
        return {
            "L": [], "P": [], "M": [], "A": ["M"], "B": ["M"],
            "C": {"tunnel": ["P"], "tunnel_open": ["T"], "nextlayer": ["NL"], "tunnel_nextlayer": ["NL"]}.get(self.topo, []),
        }[who]

    def expected_events(self, who):
        names = [n for n, _ in self.arrivals]
        kinds = dict((n, k) for n, k in self.arrivals)
        t = self.topo
        if who == "L" or who == "M":
            return names
        if who == "A":
            return [n for n in names if kinds[n] in "SD"]
        if who == "B":
            return [n for n in names if kinds[n] in "SY"]
        if who == "P":
            return [n for n in names if kinds[n] == "D"]
        if who == "C":
            if t in ("nextlayer", "tunnel_nextlayer"):
                return names if self.decided is not None else []
            if t == "tunnel" and self.hs:
                ds = [n for n in names if kinds[n] == "D"]
                if not ds:
                    return []  # handshake not finished: everything is buffered
                return [n for n in names if n != ds[0]]
            return names
        raise HarnessError(who)

    def reference(self, who):
        out = []
        state = "A"  # sequential semantics: an event is handled in the state its predecessors left behind
        for ev in self.expected_events(who):
            out.append(["enter", ev, state])
            for i, op in enumerate(self.progs.get(who + ":" + ev, "")):
                tok = "%s:%s:%d" % (who, ev, i)
                if op == "S":
                    state = "B" if state == "A" else "A"
                    continue
                out.append(["yield", tok])
                if op in BLOCKING:
                    if tok not in self.replies:
                        return out
                    out.append(["sent", tok, self.replies[tok][0]])
                else:
                    out.append(["sent", tok, None])
            out.append(["exit", ev])
        return out


def owner(tok):
    return tok.split(":", 1)[0]


def _idx(evname):
    """arrival index of an event name 'e<k>'; names of misdelivered completions sort last"""
    return int(evname[1:]) if evname[1:].isdigit() else 10 ** 6


# ----------------------------------------------------------------------------- spec for explore.bfs


class Spec:
    def __init__(self, n, progs, topos, debugs, n_debug):
        self.n, self.progs, self.topos, self.debugs = n, progs, topos, debugs
        self.n_debug = n_debug
        self.nl_kinds = ["D", "Z", "K"]  # event kinds of the NextLayer topologies (make_spec adds "F" for thorough)
        self.prefix = ()  # actions applied by build(): one BFS per prefix is dealt to the worker pool

    def build(self):
        s = Sys()
        for a in self.prefix:
            self.apply(s, a)
        return s

    def actions(self, s: Sys):
        if s.topo is None:
            return [["topo", tp, d] for tp in self.topos for d in self.debugs]
        if s.crash is not None:
            return []
        acts = []
        for tok in sorted(s.outstanding):
            c = s.outstanding[tok]
            if isinstance(c, layer.NextLayerHook):
                acts.append(["done", tok, 0])
                acts.append(["done", tok, 1])
            elif isinstance(c, commands.OpenConnection):
                acts.append(["done", tok, None])
                acts.append(["done", tok, "refused"])
            else:
                acts.append(["done", tok, None])
        tp = s.topo
        P = self.progs[tp]
        P2 = ["", "B"]
        if s.n == 0 and tp != "single":
            # Start is always the first event of a real connection
            if tp == "mux":
                for pa in P2:
                    for pb in P2:
                        acts.append(["ev", "S", {"A": pa, "B": pb}, None])
            elif tp == "nextlayer":
                for aos in (0, 1):
                    for pc in P2:
                        acts.append(["ev", "S", {"C": pc}, aos])
            elif tp == "tunnel":
                for hs in (0, 1):
                    for pc in P2:
                        acts.append(["ev", "S", {"C": pc}, hs])
            else:
                for pc in P2:
                    acts.append(["ev", "S", {"C": pc}, None])
            return acts
        nmax = (self.n_debug if (s.debug and self.n_debug) else self.n)[tp] + (0 if tp == "single" else 1)
        if s.n < nmax:
            if tp == "single":
                for k in ["D", "F"]:
                    for p in P:
                        acts.append(["ev", k, {"L": p}, None])
            elif tp == "tunnel":
                for pp in P2:
                    for pc in P:
                        acts.append(["ev", "D", {"P": pp, "C": pc}, None])
                for pc in P:
                    acts.append(["ev", "Y", {"C": pc}, None])
            elif tp == "tunnel_open":
                opened = any("O" in p for p in s.progs.values())
                for k in ["D", "Y"]:
                    for pc in [p for p in P if "O" not in p] + (["O", "OB"] if not opened else []):
                        acts.append(["ev", k, {"C": pc}, None])
            elif tp == "mux":
                for pm in P2:
                    for pc in P:
                        acts.append(["ev", "D", {"M": pm, "A": pc}, None])
                        acts.append(["ev", "Y", {"M": pm, "B": pc}, None])
            elif tp in ("nextlayer", "tunnel_nextlayer"):
                # D asks; F (thorough), Z = server closes, K = client closes do not ask and are only buffered for the
                # replay.  A connection closes once; the client sends nothing after its close (server data would).
                had = [k for _, k in s.arrivals]
                for k in self.nl_kinds:
                    if k in ("Z", "K") and k in had:
                        continue
                    if k == "D" and "K" in had:
                        continue
                    for pc in P:
                        acts.append(["ev", k, {"C": pc}, None])
        return acts

    def apply(self, s: Sys, a):
        if a[0] == "topo":
            s.setup(a[1], a[2])
        elif a[0] == "ev":
            s.deliver(a[1], a[2], a[3])
        elif a[0] == "done":
            s.complete(a[1], a[2])
        elif a[0] == "burst":
            # many events in a row (only used by the long runs, never offered to the BFS)
            for _ in range(a[3]):
                s.deliver(a[1], a[2], None)
        else:  # pragma: no cover
            raise HarnessError(a)

    def fingerprint(self, s: Sys):
        real = {}
        for name, lay in getattr(s, "real", {}).items():
            p = lay._paused
            ptok = None
            if p is not None:
                ptok = s.tok_of_cmd(p.command) or type(p.command).__name__
            q = [self._evname(s, e) for e in lay._paused_event_queue]
            extra = None
            if isinstance(lay, layer.NextLayer):
                extra = [[self._evname(s, e) for e in lay.events], lay.layer is not None]
            elif isinstance(lay, tunnel.TunnelLayer):
                extra = [lay.tunnel_state.name, [self._evname(s, e) for e in lay._event_queue], lay.command_to_reply_to is not None]
            elif isinstance(lay, Probe):
                extra = getattr(lay._handle_event, "__name__", "?")  # current state handler
            real[name] = [ptok, q, extra]
        return [s.topo, s.debug, s.hs, s.ask_on_start, s.arrivals, sorted(s.progs.items()), s.logs, sorted(s.outstanding),
                sorted((k, v[0]) for k, v in s.replies.items()), s.decided, s.crash, real, s.anomalies]

    @staticmethod
    def _evname(s, e):
        if isinstance(e, events.Start):
            return "e0"
        if isinstance(e, events.DataReceived):
            return e.data.decode()
        if isinstance(e, events.CommandCompleted):
            return "done:" + str(s.tok_of_cmd(e.command) or type(e.command).__name__)
        if isinstance(e, events.ConnectionClosed):
            return s.name_of(e)
        return type(e).__name__

    # -- the oracle
    def check(self, s: Sys, hist, t: Tally):
        if s.topo is None or (self.prefix and not hist):
            return  # the prefix states themselves were judged by the parent
        case = {"hist": [list(a) for a in self.prefix] + [list(a) for a in hist]}
        nontrivial = bool(s.replies) or bool(s.outstanding)  # some blocking command was emitted
        fp = self.fingerprint(s)
        t.case(None, nontrivial=nontrivial, key=fp)
        t.state(fp)
        t.add("transitions_" + s.topo)
        base = {"topo": s.topo, "debug": s.debug}
        t.judge("no_exception_from_layer", s.crash is None, dict(base, layer="-"), case, None, s.crash)
        t.judge("blocking_commands_emitted_once_and_marked", not s.anomalies, dict(base, layer="-"), case, None, s.anomalies)
        if s.crash is not None:
            return
        out_owners = set(owner(k) for k in s.outstanding)
        nl = s.topo in ("nextlayer", "tunnel_nextlayer")
        for who in s.layers():
            feats = dict(base, layer=who)
            obs = s.logs[who]
            ref = s.reference(who)
            held = bool(out_owners & set(s.ancestors(who)))
            verdict = {"each_event_once_in_order": None, "no_new_event_while_waiting": None,
                       "reply_reaches_its_own_yield": None}
            if who not in ("P", "M"):
                verdict["buffered_event_handled_in_state_left_by_earlier_events"] = None
            if who in ("P", "M"):
                verdict["parent_not_paused_by_child"] = None
            if nl:
                verdict["prechoice_events_reach_child_in_arrival_order"] = None
            bad = None
            i = 0
            while i < len(obs) and i < len(ref) and obs[i] == ref[i]:
                i += 1
            if i < len(obs):
                o = obs[i]
                r = ref[i] if i < len(ref) else None
                if o[0] == "enter":
                    if r is not None and r[0] == "enter" and r[1] == o[1]:
                        # the right event, but handed to a stale state handler
                        bad = "buffered_event_handled_in_state_left_by_earlier_events"
                    elif r is not None and r[0] == "enter":
                        pre = nl and s.decided is not None and (_idx(o[1]) < s.decided or _idx(r[1]) < s.decided)
                        bad = "prechoice_events_reach_child_in_arrival_order" if pre else "each_event_once_in_order"
                    elif (r is None and ref and ref[-1][0] == "yield") or (r is not None and r[0] in ("sent", "yield", "exit")):
                        bad = "no_new_event_while_waiting"
                    else:
                        bad = "each_event_once_in_order"
                elif o[0] == "sent":
                    bad = "reply_reaches_its_own_yield"
                else:
                    bad = "each_event_once_in_order"
            elif i < len(ref) and not held:
                # the layer is behind the sequential reference although nothing above it is waiting
                r = ref[i]
                own_waiting = who in out_owners
                if r[0] == "sent":
                    bad = "reply_reaches_its_own_yield"
                elif not own_waiting and out_owners and "parent_not_paused_by_child" in verdict:
                    bad = "parent_not_paused_by_child"
                elif nl and r[0] == "enter" and s.decided is not None and _idx(r[1]) < s.decided:
                    bad = "prechoice_events_reach_child_in_arrival_order"
                else:
                    bad = "each_event_once_in_order"
            for clause in verdict:
                if clause == bad:
                    t.bad(clause, feats, case, ref[max(0, i - 2): i + 3], obs[max(0, i - 2): i + 3])
                else:
                    t.ok(clause)
            if bad is not None and bad not in verdict:  # pragma: no cover
                t.bad(bad, feats, case, ref[max(0, i - 2): i + 3], obs[max(0, i - 2): i + 3])
        # the parent keeps running while only a child waits: its own pause slot is empty
        if s.topo in ("tunnel", "mux", "tunnel_nextlayer") and s.top is not None:
            par = "P" if s.topo == "tunnel" else ("M" if s.topo == "mux" else None)
            if par is None or par not in out_owners:
                t.judge("parent_not_paused_by_child", s.top._paused is None, dict(base, layer="top"), case,
                        "top layer not paused while only children wait", repr(s.top._paused))

    def final(self, s: Sys, hist, t: Tally):
        if s.topo is None:
            return
        t.outcome([s.topo, s.logs, s.crash])
        if len(t.samples) < 3 and len(hist) >= 5:
            t.samples.append({"hist": [list(a) for a in self.prefix] + [list(a) for a in hist], "logs": s.logs})


# programs: B = custom blocking command (token reply), H = real blocking hook, O = real OpenConnection
# (both replies), N = non-blocking SendData.  "BB": the 2nd command is reached through __process,
# "NHN": non-blocking commands on both sides of a blocking one.
# "S": switch the state handler (assign self._handle_event) without blocking - later events, buffered or not,
# must be handled by the new state handler.
P5 = ["", "B", "BB", "NHN", "O", "S"]
P4 = ["", "B", "BB", "NHN", "S"]
P3 = ["", "B", "BB"]
PROGS_QUICK = {"single": P5, "tunnel": P4, "tunnel_open": P3, "mux": P3, "nextlayer": P3, "tunnel_nextlayer": P3}
PROGS_THOROUGH = {"single": P5, "tunnel": P4, "tunnel_open": P4, "mux": P3, "nextlayer": P3 + ["S"], "tunnel_nextlayer": P4}
N_QUICK = {"single": 3, "tunnel": 2, "tunnel_open": 2, "mux": 2, "nextlayer": 3, "tunnel_nextlayer": 2}
# nextlayer: thorough keeps 3 events (enough for a decision at the 1st/2nd/3rd ask) but uses the richer alphabet
# (foreign completions and both closes before the decision, state switches in the chosen child)
N_THOROUGH = {"single": 4, "tunnel": 3, "tunnel_open": 3, "mux": 3, "nextlayer": 3, "tunnel_nextlayer": 3}
PREFIX_LEN = 3


def make_spec(tier):
    if tier == "thorough":
        # with proxy_debug on (extra Log commands from Layer.__debug) the quick event bound is used
        sp = Spec(N_THOROUGH, PROGS_THOROUGH, TOPOS, [False, True], N_QUICK)
        sp.nl_kinds = ["D", "F", "Z", "K"]
        return sp
    if tier == "replay":
        sp = Spec(dict((k, 9) for k in TOPOS), PROGS_THOROUGH, TOPOS, [False, True], None)
        sp.nl_kinds = ["D", "F", "Z", "K"]
        return sp
    return Spec(N_QUICK, PROGS_QUICK, TOPOS, [False], None)


def _prefixes(spec, t: Tally):
    """all histories of PREFIX_LEN actions (judged here, in the parent), de-duplicated by fingerprint"""
    out, seen = [], set()

    def rec(hist):
        s = spec.build()
        for a in hist:
            spec.apply(s, a)
        if hist:
            t.transitions += 1
            spec.check(s, hist, t)
        fp = digest(spec.fingerprint(s))
        if fp in seen:
            return
        seen.add(fp)
        acts = spec.actions(s)
        if not acts:
            spec.final(s, hist, t)
            t.executions += 1
            return
        if len(hist) >= PREFIX_LEN:
            out.append(hist)
            return
        for a in acts:
            rec(hist + (a,))

    rec(())
    return out


_TIER = "quick"


def _bfs_chunk(chunk):
    t = Tally()
    for prefix in chunk:
        spec = make_spec(_TIER)
        spec.prefix = tuple(prefix)
        explore.bfs(spec, 10 ** 6, t, nproc=1)
    t.states = 0  # distinct states are counted through t.state() so that partitions do not double count
    return t


def long_histories(n, debug=False):
    """one long run per place where events can pile up: n events buffered behind ONE blocking command
    (the BFS bounds the number of events, not the property: 'every incoming event exactly once')"""
    S = ["ev", "S"]
    return [
        [["topo", "single", debug], ["ev", "D", {"L": "B"}, None], ["burst", "D", {"L": ""}, n], ["done", "L:e0:0", None]],
        [["topo", "single", debug], ["ev", "D", {"L": "B"}, None], ["burst", "F", {"L": ""}, n], ["done", "L:e0:0", None]],
        # the tunnel parent waits / its child waits
        [["topo", "tunnel", debug], S + [{"C": ""}, 0], ["ev", "D", {"P": "B", "C": ""}, None], ["burst", "Y", {"C": ""}, n], ["done", "P:e1:0", None]],
        [["topo", "tunnel", debug], S + [{"C": ""}, 0], ["ev", "D", {"P": "", "C": "B"}, None], ["burst", "D", {"P": "", "C": ""}, n], ["done", "C:e1:0", None]],
        # events buffered by TunnelLayer._event_queue during the handshake, which itself waits for a command
        [["topo", "tunnel", debug], S + [{"C": ""}, 1], ["burst", "Y", {"C": ""}, n], ["ev", "D", {"P": "B"}, None], ["burst", "Y", {"C": ""}, n], ["done", "P:e%d:0" % (n + 1), None]],
        [["topo", "tunnel_open", debug], S + [{"C": ""}, None], ["ev", "D", {"C": "O"}, None], ["burst", "Y", {"C": ""}, n], ["done", "T:open0", None]],
        [["topo", "mux", debug], S + [{"A": "", "B": ""}, None], ["ev", "D", {"M": "B", "A": ""}, None], ["burst", "Y", {"M": "", "B": ""}, n], ["done", "M:e1:0", None]],
        [["topo", "mux", debug], S + [{"A": "", "B": ""}, None], ["ev", "D", {"M": "", "A": "B"}, None], ["burst", "D", {"M": "", "A": ""}, n], ["done", "A:e1:0", None]],
        # undecided NextLayer with its ask outstanding: everything is replayed to the chosen child
        [["topo", "nextlayer", debug], S + [{"C": ""}, 0], ["ev", "D", {"C": ""}, None], ["burst", "F", {"C": ""}, n], ["done", "NL:ask0", 1]],
        [["topo", "tunnel_nextlayer", debug], S + [{"C": ""}, None], ["ev", "D", {"C": ""}, None], ["burst", "F", {"C": ""}, n], ["done", "NL:ask0", 1]],
    ]


def long_runs(t: Tally, sizes):
    spec = make_spec("replay")
    for n in sizes:
        for hist in long_histories(n):
            s = spec.build()
            done = []
            for a in hist:
                spec.apply(s, a)
                done.append(a)
                t.transitions += a[3] if a[0] == "burst" else 1
                spec.check(s, done, t)
            t.executions += 1
            t.add("long_runs")


def run(ctx):
    global _TIER
    _TIER = ctx.tier
    spec = make_spec(ctx.tier)
    sizes = ctx.pick([100, 1000], [100, 1000, 5000])
    long_runs(ctx.tally, sizes)
    ctx.log("long runs done: %s events buffered behind one blocking command, %d stacks" % (sizes, len(long_histories(1))))
    ctx.bounds = {"events_after_start_per_topology": spec.n, "programs_per_event": spec.progs, "topologies": spec.topos,
                  "proxy_debug": spec.debugs, "depth": "unbounded (every history runs until all events are delivered and nothing is outstanding)",
                  "long_runs_events_buffered_behind_one_command": sizes}
    pre = _prefixes(spec, ctx.tally)
    ctx.log("%d prefixes of %d actions; one full BFS below each" % (len(pre), PREFIX_LEN))
    par.pmap_tally(_bfs_chunk, pre, ctx.tally, nchunks=min(len(pre), 16 * 8))
    ctx.tally.max_depth += PREFIX_LEN
    ctx.log("done: %d distinct states" % len(ctx.tally.state_set))


def replay(case, t: Tally, verbose=False):
    spec = make_spec("replay")
    s = spec.build()
    hist = []
    for a in case["hist"]:
        spec.apply(s, a)
        hist.append(a)
        spec.check(s, hist, t)
        if verbose:
            print("  after", a)
            for who, lg in s.logs.items():
                print("     ", who, lg)
            print("      outstanding", sorted(s.outstanding), "crash", s.crash)
