"""tools/seedrecord.py <results.txt> - copy `SEED ...` lines printed by tools/seedcheck.sh into seeded/<id>/meta.json
(key "confirmation": what the main session ran itself and observed) and rewrite seeded/RESULTS.md."""
import glob
import json
import os
import re
import subprocess
import sys

ROOT = os.path.dirname(os.path.dirname(os.path.abspath(__file__)))
head = subprocess.check_output(["git", "-C", "/repo", "log", "--format=%h", "-1"], text=True).strip()
for line in open(sys.argv[1]):
    m = re.match(r"SEED (\S+) (\S+) demo_without=(\d+) demo_with=(\d+) baseline=(\S+) check_exit=(\d+) violations=(\d+) :: ?(.*)", line)
    if not m:
        continue
    pid, sid, dwo, dw, base, rc, nv, first = m.groups()
    p = os.path.join(ROOT, "seeded", sid, "meta.json")
    if not os.path.exists(p):
        continue
    meta = json.load(open(p))
    if dw == "0" and meta.get("confirmation"):
        # the demonstration passes with the patch on the current HEAD: a later fix: commit made the change harmless;
        # keep the original confirmation and note it
        meta["confirmation"]["superseded_on_head"] = "at /repo %s the demonstration passes with the patch applied (a later fix: commit made this change harmless); the confirmation above is from the tree it was written for" % head
        meta["confirmation"]["detected"] = meta["confirmation"].get("detected") or None
        json.dump(meta, open(p, "w"), indent=1, ensure_ascii=False)
        continue
    prev = meta.get("confirmation") or {}
    meta["confirmation"] = {
        "ran": "tools/seedcheck.sh seeded/%s quick (scratch worktree of /repo at %s: demo without patch, demo with patch, full pinned suite with patch, ./check %s --tier quick with VERIF_REPO=<worktree>)" % (sid, head, pid),
        "demo_passes_without_patch": dwo == "0",
        "demo_fails_with_patch": dw != "0",
        "repo_suite_with_patch": base if base != "skipped" else prev.get("repo_suite_with_patch", base),
        "first_run_detected": prev.get("first_run_detected", prev.get("detected")) if prev else None,
        "check_exit": int(rc),
        "violation_lines": int(nv),
        "first_violation": first.strip(),
        "detected": rc == "1" and int(nv) > 0,
    }
    json.dump(meta, open(p, "w"), indent=1, ensure_ascii=False)
rows = []
for p in sorted(glob.glob(os.path.join(ROOT, "seeded", "*", "meta.json"))):
    meta = json.load(open(p))
    c = meta.get("confirmation")
    if not c:
        continue
    rows.append("| %s | %s | %s | %s | %s | %s |" % (os.path.basename(os.path.dirname(p)), meta.get("property"), (meta.get("summary") or "").replace("|", "/")[:160],
                                                  "yes" if c["demo_fails_with_patch"] and c["demo_passes_without_patch"] else "NO", c["repo_suite_with_patch"],
                                                  ("superseded on HEAD by a later fix (demo passes with the patch)" if c.get("superseded_on_head") and not c["detected"] else
                                                   "DETECTED (after the check was strengthened; missed by the first run)" if c["detected"] and c.get("first_run_detected") is False else
                                                   "DETECTED" if c["detected"] else "missed")))
open(os.path.join(ROOT, "seeded", "RESULTS.md"), "w").write(
    "# Seeded changes (written by sub-agents that saw only the property text)\n\n| id | property | change | demo fails with / passes without | repo suite with patch | quick check |\n|---|---|---|---|---|---|\n" + "\n".join(rows) + "\n")
print(len(rows), "seeded changes recorded;", sum("DETECTED" in r for r in rows), "detected")
