"""tools/mkmutant.py <out.diff> <file-relative-to-repo> <<'EOF' ...
stdin: python literal list of (old, new) string pairs.  Creates a unified diff against
/repo's HEAD in a scratch worktree (never touches /repo's working tree)."""
import ast
import os
import subprocess
import sys

out, rel = sys.argv[1], sys.argv[2]
pairs = ast.literal_eval(sys.stdin.read())
wt = "/dev/shm/vmc-mk-%d" % os.getpid()
subprocess.check_call(["git", "-C", "/repo", "worktree", "add", "-q", "--detach", wt, "HEAD"])
try:
    p = os.path.join(wt, rel)
    s = open(p).read()
    for old, new in pairs:
        if s.count(old) != 1:
            sys.exit("pattern occurs %d times: %r" % (s.count(old), old[:60]))
        s = s.replace(old, new)
    open(p, "w").write(s)
    diff = subprocess.check_output(["git", "-C", wt, "diff"])
    open(out, "wb").write(diff)
    print("wrote", out, len(diff), "bytes")
finally:
    subprocess.call(["git", "-C", "/repo", "worktree", "remove", "--force", wt])
