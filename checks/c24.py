"""C24 - upstream credentials go only to the upstream proxy / the reverse target.

Engine E on the real stack: the real `UpstreamAuth` addon in the real addon chain behind
the full stacks built by the real mode layers (regular, transparent, socks5,
upstream:http, upstream:https, reverse:http, reverse:https), driven through the real
ProxyConnectionHandler on the virtual loop.  TLS towards the client and towards servers
uses the real ClientTLSLayer / ServerTLSLayer with a pass-through object in place of the
OpenSSL connection (`vmc.drivers.stacks.NullSSL`: handshake markers, then clear text), so
the bytes inside CONNECT tunnels and inside TLS stay observable.  A scripted peer answers
on every upstream socket and records, per socket, every request with its nesting
(inside how many CONNECT tunnels / TLS layers).  The oracle looks for the configured
credential on every hop.
"""
from __future__ import annotations

import base64
import itertools
import re

from mitmproxy.addons.upstream_auth import UpstreamAuth

from vmc import par
from vmc.drivers import stacks
from vmc.drivers.stacks import world as World
from vmc.refs import http1ref
from vmc.tally import Tally

META = {
    "level": "exploration",
    "technique": "bounded-exhaustive enumeration of (mode, upstream_auth, connection strategy, request sequence on one client connection) on the real UpstreamAuth addon behind the real mode stacks and ConnectionHandler (virtual loop, pass-through TLS); every upstream socket's byte stream is parsed by an independent HTTP/1 reader with tunnel/TLS nesting",
    "claim": "within the stated grammar the configured credential appears only as Proxy-Authorization on the connection to the configured upstream proxy outside any tunnel, or as Authorization towards the reverse target, and it is present on those hops",
    "rule": "a case is (mode, auth set/unset, strategy, step sequence); distinct = distinct tuple; non-trivial = at least one request reached an upstream socket",
    "assumptions": [
        "TLS is replaced by a pass-through SSL object handed to tls_start_client/tls_start_server (where TlsConfig would hand an OpenSSL connection); the decision of TlsConfig.tls_clienthello (establish_server_tls_first) is reproduced by the same policy",
        "clients do not send Proxy-Authorization / Authorization themselves",
        "HTTP/1 on every hop; upstream peers answer every complete request at once",
    ],
}

USERPASS = "upuser:uppass"
CRED = b"Basic " + base64.b64encode(USERPASS.encode())
PROXY = ("proxy.test", 3128)
MODES = {
    "regular": "regular",
    "upstream_http": "upstream:http://proxy.test:3128",
    "upstream_https": "upstream:https://proxy.test:3128",
    "transparent80": "transparent",
    "transparent443": "transparent",
    "socks5_80": "socks5",
    "socks5_443": "socks5",
    "reverse_http": "reverse:http://target.test:8000/",
    "reverse_https": "reverse:https://target.test:8443/",
    "reverse_http_ctls": "reverse:http://target.test:8000/",
    "reverse_https_ctls": "reverse:https://target.test:8443/",
}
PROXY_DIRECT = ["abs", "abs_b", "abs_https"]
TUNNEL_ALPHABET = ["inner", "inner_abs", "inner_abs_https"]


def cases(maxlen, thorough):
    out = []
    for auth in ("set", "unset"):
        for strategy in ("eager", "lazy"):
            for mode in ("regular", "upstream_http", "upstream_https"):
                # requests on the proxy connection itself (any absolute-form target scheme), then optionally one
                # CONNECT tunnel (plain or TLS) carrying origin-form and absolute-form requests
                for p in range(0, maxlen + 1):
                    for prefix in itertools.product(PROXY_DIRECT, repeat=p):
                        if p:
                            out.append({"mode": mode, "auth": auth, "strategy": strategy, "steps": list(prefix)})
                        for q in range(1, maxlen - p):
                            for tunnel in (["c80"], ["c443", "tls"]):
                                for suffix in itertools.product(TUNNEL_ALPHABET, repeat=q):
                                    out.append({"mode": mode, "auth": auth, "strategy": strategy, "steps": list(prefix) + tunnel + list(suffix)})
            for mode in ("transparent80", "socks5_80", "reverse_http", "reverse_https"):
                pre = ["socks80"] if mode == "socks5_80" else []
                for n in range(1, maxlen + 1):
                    out.append({"mode": mode, "auth": auth, "strategy": strategy, "steps": pre + ["origin"] * n})
                for first in ("inner_abs", "inner_abs_https"):
                    out.append({"mode": mode, "auth": auth, "strategy": strategy, "steps": pre + [first, "origin"]})
            for mode in ("transparent443", "socks5_443", "reverse_http_ctls", "reverse_https_ctls"):
                pre = ["socks443"] if mode == "socks5_443" else []
                for n in range(1, maxlen + 1):
                    out.append({"mode": mode, "auth": auth, "strategy": strategy, "steps": pre + ["tls"] + ["origin"] * n})
                for first in ("inner_abs", "inner_abs_https"):
                    out.append({"mode": mode, "auth": auth, "strategy": strategy, "steps": pre + ["tls", first, "origin"]})
    return out


def step_bytes(k, step):
    if step == "abs":
        return b"GET http://origin.test/r%d HTTP/1.1\r\nHost: origin.test\r\n\r\n" % k
    if step == "abs_b":
        return b"GET http://other.test/r%d HTTP/1.1\r\nHost: other.test\r\n\r\n" % k
    if step == "abs_https":  # RFC 9112 3.2.2: a proxy must accept any absolute-form target, also https
        return b"GET https://origin.test/r%d HTTP/1.1\r\nHost: origin.test\r\n\r\n" % k
    if step == "inner_abs":  # absolute-form inside a tunnel / towards a non-proxy: servers must accept it too
        return b"GET http://origin.test/r%d HTTP/1.1\r\nHost: origin.test\r\n\r\n" % k
    if step == "inner_abs_https":
        return b"GET https://origin.test/r%d HTTP/1.1\r\nHost: origin.test\r\n\r\n" % k
    if step == "c80":
        return b"CONNECT origin.test:80 HTTP/1.1\r\nHost: origin.test:80\r\n\r\n"
    if step == "c443":
        return b"CONNECT origin.test:443 HTTP/1.1\r\nHost: origin.test:443\r\n\r\n"
    if step in ("inner", "origin"):
        return b"GET /r%d HTTP/1.1\r\nHost: origin.test\r\n\r\n" % k
    if step == "tls":
        return stacks.client_hello("origin.test")
    if step == "socks80":
        return b"\x05\x01\x00" + b"\x05\x01\x00\x03\x0borigin.test\x00\x50"
    if step == "socks443":
        return b"\x05\x01\x00" + b"\x05\x01\x00\x03\x0borigin.test\x01\xbb"
    raise ValueError(step)


def execute(case):
    mode = case["mode"]
    opts = {"connection_strategy": case["strategy"]}
    if case["auth"] == "set":
        opts["upstream_auth"] = USERPASS
    kw = {}
    if mode.startswith("transparent"):
        kw["original_dst"] = ("198.51.100.7", 443 if mode.endswith("443") else 80)
    w = World(mode=MODES[mode], opts=opts, addons=[UpstreamAuth()], master_key="c24-upstreamauth", auto_connect=True,
              policy=stacks.null_tls_policy, **kw)
    peer = stacks.TunnelPeer()
    obs = {"crash": None}
    try:
        try:
            w.start()
            sent = 0
            for k, step in enumerate(case["steps"]):
                if w.client.w.closed or w.done:
                    break
                w.client_send(step_bytes(k, step))
                peer.pump(w)
                sent += 1
            obs["sent"] = sent
            obs["conns"] = [(a, ev, rest) for a, ev, rest in peer.connections(w)]
            obs["client"] = w.client.w.data
            obs["finished"] = w.close_out()
            obs["errors"] = list(w.errors)
        except KeyboardInterrupt:
            raise
        except BaseException as e:
            obs["crash"] = repr(e)[:300]
    finally:
        w.dispose()
    return obs


def where_of(mode, ev):
    outer_tls = 1 if mode in ("upstream_https", "reverse_https", "reverse_https_ctls") else 0
    if ev["tunnel"] > 0:
        return "inside-tunnel-tls" if ev["tls"] > outer_tls else "inside-tunnel-plain"
    return "connect-request" if ev["kind"] == "connect" else "direct-request"


def judge(case, obs, t: Tally):
    mode = case["mode"]
    kind = "upstream" if mode.startswith("upstream") else "reverse" if mode.startswith("reverse") else "other"
    base = {"mode": mode, "auth": case["auth"], "strategy": case["strategy"]}
    if obs.get("crash") or obs.get("errors") or not obs.get("finished"):
        t.case(case, nontrivial=True, key=repr(case))
        t.bad("creds_only_on_allowed_hops", dict(base, internal_error=True), case, "no internal error",
              {k: obs.get(k) for k in ("crash", "errors", "finished")})
        return
    target = ("target.test", 8443 if "https" in mode else 8000)
    n_requests = 0
    shape = []
    for addr, events, rest in obs["conns"]:
        for ev in events:
            if ev["kind"] == "tls":
                shape.append("tls")
                continue
            n_requests += 1
            wh = where_of(mode, ev)
            fields = [(n.lower(), v) for n, v in ev["msg"]["fields"]]
            carrying = [n for n, v in fields if CRED in v]
            shape.append([addr[0], wh, carrying])
            # which client step produced this upstream message (marker /rK), and what the client had wrapped it in
            cstep, ctunnel = "-", "-"
            mk = re.search(rb"/r(\d+)$", ev["msg"]["start"][1])
            if mk and int(mk.group(1)) < len(case["steps"]):
                k = int(mk.group(1))
                cstep = case["steps"][k]
                before = case["steps"][:k]
                ctunnel = "tls" if "tls" in before else "plain" if "c80" in before else "none"
            f = dict(base, where=wh, header="+".join(sorted(set(x.decode() for x in carrying))) or "-",
                     client_step=cstep, client_tunnel=ctunnel)
            allowed_hdr = None
            if case["auth"] == "set":
                if kind == "upstream" and addr == PROXY and ev["tunnel"] == 0:
                    allowed_hdr = b"proxy-authorization"
                elif kind == "reverse" and addr == target and ev["tunnel"] == 0:
                    allowed_hdr = b"authorization"
            leaked = [n for n in carrying if n != allowed_hdr]
            t.judge("creds_only_on_allowed_hops", not leaked, f, case,
                    "credential only in %s on this hop" % (allowed_hdr.decode() if allowed_hdr else "no header"),
                    {"connection": addr, "start": ev["msg"]["start"], "fields": ev["msg"]["fields"], "nesting": [ev["tunnel"], ev["tls"]]})
            if allowed_hdr is not None:
                t.judge("present_where_required", carrying.count(allowed_hdr) == 1 and dict(fields).get(allowed_hdr) == CRED, f, case,
                        "%s: %s" % (allowed_hdr.decode(), CRED.decode()), {"connection": addr, "start": ev["msg"]["start"], "fields": ev["msg"]["fields"]})
        if CRED in rest:
            t.bad("creds_only_on_allowed_hops", dict(base, where="unparsed-bytes", header="?"), case, "credential nowhere else", {"connection": addr, "bytes": rest[:200]})
    if CRED in obs["client"]:
        t.bad("creds_only_on_allowed_hops", dict(base, where="client", header="?"), case, "credential never sent to the client", obs["client"][:300])
    t.case(case if len(case["steps"]) >= 3 and case["auth"] == "set" else None, nontrivial=n_requests > 0, key=repr(case))
    t.outcome(shape)
    if n_requests == 0:
        t.note("no request reached an upstream socket: %s %s" % (mode, "+".join(case["steps"])))


def run_case(case, t: Tally, verbose=False):
    obs = execute(case)
    if verbose:
        for a, ev, rest in obs.get("conns", []):
            print("connection", a)
            for e in ev:
                print("   ", e["kind"], "tunnel=%d tls=%d" % (e["tunnel"], e["tls"]), e.get("msg", {}).get("start"), e.get("msg", {}).get("fields"))
        print({k: v for k, v in obs.items() if k != "conns"})
    judge(case, obs, t)


def all_cases(thorough):
    return cases(4 if thorough else 3, thorough)


def chunk_fn(chunk):
    t = Tally()
    for case in chunk:
        run_case(case, t)
    return t


def run(ctx):
    stacks.client_hello("origin.test")  # built once in the parent: identical bytes in every worker
    maxlen = ctx.pick(3, 4)
    cs = cases(maxlen, ctx.thorough)
    ctx.bounds = {"modes": list(MODES), "upstream_auth": ["set", "unset"], "connection_strategy": ["eager", "lazy"],
                  "proxy_connection_alphabet": PROXY_DIRECT + ["c80", "c443+tls"], "inside_tunnel_alphabet": TUNNEL_ALPHABET,
                  "max_sequence_length": maxlen, "cases": len(cs)}
    ctx.log("%d cases" % len(cs))
    par.pmap_tally(chunk_fn, cs, ctx.tally, nchunks=64)


def replay(case, t, verbose=False):
    run_case(case, t, verbose=verbose)
