"""C06 - translating between HTTP versions preserves message semantics.

Engine E on the real stack: every word of a message grammar (requests and responses,
well-formed and adversarial) is sent through the real ProxyConnectionHandler /
HttpLayer between two *independent* endpoints for every (client, server) version pair:

    HTTP/1: raw bytes out, `http1ref` (strict RFC 9112 reader) in
    HTTP/2: hyper-h2 `H2Connection` peers (vmc.peers.h2peer)
    HTTP/3: aioquic `H3Connection` over a fake QUIC wire (vmc.peers.h3peer)

What the next hop decodes is compared with a literal reading of the input:
method, scheme, authority-or-Host, path, status, end-to-end fields (names
case-insensitive, Cookie fields joined with `; ` towards HTTP/1), body, trailers.
Bytes sent to an HTTP/1 hop for one message must parse as exactly one well-formed
message.  Refusing a message (stream / connection error, 4xx/5xx of mitmproxy's own)
always satisfies the property; crashing does not.
"""
from __future__ import annotations

import gc

from mitmproxy.proxy.layers import http as http_layer
from mitmproxy.proxy.layers.http import HTTPMode

from vmc import par
from vmc.drivers import h1
from vmc.drivers.world import World
from vmc.peers import h3peer
from vmc.peers.h2peer import H2Peer
from vmc.refs import http1ref
from vmc.tally import Tally

META = {
    "level": "exploration",
    "technique": "bounded-exhaustive enumeration of a request/response grammar (well-formed and adversarial header blocks), each word executed on the real proxy stack for every (client, server) pair of HTTP/1, HTTP/2, HTTP/3 between independent endpoints (http1ref, hyper-h2, aioquic H3) and compared field by field with a literal reading of the input",
    "claim": "every message of the grammar is either refused or arrives at the next hop with the same method, scheme, authority/Host, path, status, end-to-end fields (Cookie joined towards HTTP/1), body and trailers; bytes emitted to an HTTP/1 hop for one message are exactly one well-formed message",
    "rule": "a case is (client version, server version, direction, start-line/pseudo-header variant, header-pool subset, body form, trailer form); distinct = distinct tuple; non-trivial = the message was forwarded to the next hop (not refused)",
    "assumptions": [
        "scheme http only (https needs a TLS handshake, which is C13-C16's subject); regular proxy mode",
        "hop-by-hop fields (connection, keep-alive, proxy-connection, transfer-encoding, upgrade, te), content-length and the reason phrase are not compared; body equality and one_h1_message cover framing",
        "field values are compared after stripping optional whitespace around them",
        "HTTP/3 runs over a fake QUIC wire (stream records on the mock socket) and a pass-through shim layer in place of mitmproxy's QUIC layers; Http3Server/Http3Client and LayeredH3Connection are the real ones",
        "CONNECT, upgrades (101) and interim 1xx responses are outside this grammar (C01/C28)",
    ],
}

HOP = {b"connection", b"keep-alive", b"proxy-connection", b"transfer-encoding", b"upgrade", b"te"}
# `expect` is consumed by mitmproxy itself (it answers 100-continue and removes the field)
NOT_COMPARED = HOP | {b"content-length", b"host", b"cookie", b"expect"}
AUTH = b"example.com"
VERSIONS = ("h1", "h2", "h3")


# ============================================================================================== endpoints
def _factory(cv, sv):
    def factory(ctx):
        if cv == "h2":
            ctx.client.alpn = b"h2"
        elif cv == "h3":
            ctx.client.alpn = b"h3"
        inner = http_layer.HttpLayer(ctx, HTTPMode.regular)
        return inner

    if "h3" in (cv, sv):
        return lambda ctx: h3peer.QuicShim(ctx, factory)
    return factory


def _policy(sv, extra=None):
    def policy(name, data, world):
        if name == "server_connect":
            if sv == "h2":
                data.server.alpn = b"h2"
            elif sv == "h3":
                data.server.alpn = b"h3"
        if extra:
            extra(name, data, world)

    return policy


def _enc(fn, *a, **kw):
    """a call into the independent peer library that produces bytes; its refusal to encode is not a finding"""
    try:
        return fn(*a, **kw)
    except Exception as e:
        raise h3peer.PeerCannotEncode("%s: %s" % (type(e).__name__, e))


class H1Client:
    v = "h1"

    def start(self, w):
        pass

    def send_request(self, w, req):
        w.client_send(req["raw"])

    def poll(self, w):
        pass

    def response(self, w, method):
        data = w.client.w.data
        msgs, verdict = http1ref.parse_responses(data, [method], eof=w.client.w.closed)
        final = [m for m in msgs if not (100 <= int(m["start"][1]) < 200)]
        out = {"raw": data, "verdict": verdict, "n": len(final), "closed": w.client.w.closed, "state": "none"}
        if final:
            m = final[0]
            out.update(state="complete", status=int(m["start"][1]), fields=[(n, v) for n, v in m["fields"]], body=m["body"],
                       trailers=[(n, v) for n, v in m["trailers"]])
        elif data:
            out["state"] = "partial"
        return out


class H2Client:
    v = "h2"

    def __init__(self):
        self.p = H2Peer(True, validate_inbound=False)
        self.pos = 0
        self.sid = None

    def start(self, w):
        w.client_send(self.p.start())
        self.poll(w)

    def poll(self, w):
        for _ in range(20):
            data = w.client.w.data
            if len(data) <= self.pos:
                break
            new, self.pos = data[self.pos:], len(data)
            self.p.receive(new)
            out = b"".join(self.p.release(s) for s in list(self.p.unacked)) + self.p.out()
            if out and not w.client.r.eof and not self.p.dead:
                w.client_send(out)

    def send_request(self, w, req):
        p = self.p
        self.sid = sid = p.next_stream_id()
        body, trailers = req["body"], req["trailers"]
        w.client_send(_enc(p.headers, sid, req["pseudo"] + req["fields"], end=body is None and trailers is None))
        self.poll(w)
        if body is not None and p.can_send(sid):
            w.client_send(_enc(p.data, sid, body, end=trailers is None))
            self.poll(w)
        if trailers is not None and p.can_send(sid):
            w.client_send(_enc(p.trailers, sid, trailers))
            self.poll(w)

    def response(self, w, method):
        self.poll(w)
        st = self.p.streams.get(self.sid)
        out = {"state": "none", "conn_error": self.p.conn_error, "goaway": self.p.terminated}
        if st is None:
            return out
        if st["reset"] is not None:
            out["state"] = "reset"
        elif st["ended"]:
            out["state"] = "complete"
        elif st["headers"] is not None:
            out["state"] = "partial"
        if st["headers"] is not None:
            ps = [(n, v) for n, v in st["headers"] if n.startswith(b":")]
            try:
                out["status"] = int(dict(ps).get(b":status", b"0"))
            except ValueError:
                out["status"] = -1
            out["fields"] = [(n, v) for n, v in st["headers"] if not n.startswith(b":")]
            out["body"] = b"".join(st["data"])
            out["trailers"] = list(st["trailers"] or [])
        return out


class H1Server:
    v = "h1"

    def __init__(self, end):
        self.end = end

    def poll(self, w):
        pass

    def request(self, w):
        data = self.end.w.data
        msgs, verdict = http1ref.parse_requests(data)
        out = {"raw": data, "verdict": verdict, "n": len(msgs), "state": "none", "closed": self.end.w.closed, "eof": self.end.w.eof_written}
        if msgs:
            m = msgs[0]
            out.update(state="complete", method=m["start"][0], path=m["start"][1], scheme=None, authority=None,
                       fields=[(n, v) for n, v in m["fields"]], body=m["body"], trailers=[(n, v) for n, v in m["trailers"]])
        elif data:
            out["state"] = "partial"
        return out

    def send_response(self, w, resp):
        if self.end.state != "open" or self.end.r.eof or self.end.w.closed:
            return
        w.server_send(self.end, resp["raw"])
        if resp.get("eof"):
            self.end.r.eof = True
            w.server_eof(self.end)


class H2Server:
    v = "h2"

    def __init__(self, end):
        self.end = end
        self.p = H2Peer(False, validate_inbound=False)
        self.pos = 0
        self.started = False

    def poll(self, w):
        e = self.end
        if not self.started:
            self.started = True
            w.server_send(e, self.p.start())
        for _ in range(20):
            data = e.w.data
            if len(data) <= self.pos:
                break
            new, self.pos = data[self.pos:], len(data)
            self.p.receive(new)
            out = b"".join(self.p.release(s) for s in list(self.p.unacked)) + self.p.out()
            if out and e.state == "open" and not e.r.eof and not e.w.closed and not self.p.dead:
                w.server_send(e, out)

    def request(self, w):
        self.poll(w)
        p = self.p
        out = {"state": "none", "conn_error": p.conn_error, "goaway": p.terminated, "n": len(p.order)}
        if not p.order:
            return out
        sid = p.order[0]
        st = p.streams[sid]
        out["state"] = "reset" if st["reset"] is not None else ("complete" if st["ended"] else "partial")
        ps = [(n, v) for n, v in st["headers"] if n.startswith(b":")]
        d = {}
        for n, v in ps:
            d.setdefault(n, v)
        out.update(method=d.get(b":method"), scheme=d.get(b":scheme"), authority=d.get(b":authority"), path=d.get(b":path"),
                   pseudo=ps, fields=[(n, v) for n, v in st["headers"] if not n.startswith(b":")], body=b"".join(st["data"]),
                   trailers=list(st["trailers"] or []), sid=sid)
        return out

    def send_response(self, w, resp):
        p, e = self.p, self.end
        if not p.order:
            return
        sid = p.order[0]

        def send(data):
            if data and e.state == "open" and not e.r.eof and not e.w.closed:
                w.server_send(e, data)

        body, trailers = resp["body"], resp["trailers"]
        if not p.can_send(sid):
            return
        send(_enc(p.headers, sid, resp["pseudo"] + resp["fields"], end=body is None and trailers is None))
        self.poll(w)
        if body is not None and p.can_send(sid):
            send(_enc(p.data, sid, body, end=trailers is None))
            self.poll(w)
        if trailers is not None and p.can_send(sid):
            send(_enc(p.trailers, sid, trailers))
            self.poll(w)


def make_client(cv):
    return {"h1": H1Client, "h2": H2Client, "h3": h3peer.H3Client}[cv]()


def make_server(sv, end):
    return {"h1": H1Server, "h2": H2Server, "h3": h3peer.H3Server}[sv](end)


# ============================================================================================== grammar
def _hx_pseudo(method=b"POST", scheme=b"http", authority=AUTH, path=b"/p"):
    ps = [(b":method", method), (b":scheme", scheme)]
    if authority is not None:
        ps.append((b":authority", authority))
    ps.append((b":path", path))
    return ps


# start-line / pseudo-header variants for HTTP/2 and HTTP/3 sources: name -> (pseudo list, extra leading fields)
def hx_start_variants():
    V = {}
    V["base"] = _hx_pseudo()
    V["get"] = _hx_pseudo(method=b"GET")
    V["method_lower"] = _hx_pseudo(method=b"get")
    V["method_sp"] = _hx_pseudo(method=b"GE T")
    V["method_tab"] = _hx_pseudo(method=b"GE\tT")
    V["method_crlf"] = _hx_pseudo(method=b"GET /x HTTP/1.1\r\nx-inj: 1\r\n\r\nGET")
    V["method_lf"] = _hx_pseudo(method=b"GET\nx")
    V["method_nul"] = _hx_pseudo(method=b"GE\x00T")
    V["method_colon"] = _hx_pseudo(method=b"GET:")
    V["method_empty"] = _hx_pseudo(method=b"")
    V["scheme_upper"] = _hx_pseudo(scheme=b"HTTP")
    V["scheme_sp"] = _hx_pseudo(scheme=b"ht tp")
    V["scheme_crlf"] = _hx_pseudo(scheme=b"http\r\nx-inj: 1")
    V["scheme_ftp"] = _hx_pseudo(scheme=b"ftp")
    V["scheme_colon"] = _hx_pseudo(scheme=b"http://evil.test/?")
    V["auth_port"] = _hx_pseudo(authority=b"example.com:8080")
    V["auth_port80"] = _hx_pseudo(authority=b"example.com:80")
    V["auth_upper"] = _hx_pseudo(authority=b"EXAMPLE.com")
    V["auth_missing"] = _hx_pseudo(authority=None)
    V["auth_sp"] = _hx_pseudo(authority=b"exa mple.com")
    V["auth_tab"] = _hx_pseudo(authority=b"example.com\t")
    V["auth_crlf"] = _hx_pseudo(authority=b"example.com\r\nx-inj: 1")
    V["auth_lf"] = _hx_pseudo(authority=b"example.com\nx-inj: 1")
    V["auth_nul"] = _hx_pseudo(authority=b"example.com\x00.evil.test")
    V["auth_two_colons"] = _hx_pseudo(authority=b"example.com:80:80")
    V["auth_userinfo"] = _hx_pseudo(authority=b"user@example.com")
    V["auth_slash"] = _hx_pseudo(authority=b"example.com/x")
    V["auth_empty"] = _hx_pseudo(authority=b"")
    V["path_root"] = _hx_pseudo(path=b"/")
    V["path_query"] = _hx_pseudo(path=b"/a?b=c&d")
    V["path_star"] = _hx_pseudo(path=b"*")
    V["path_sp"] = _hx_pseudo(path=b"/a b")
    V["path_sp_version"] = _hx_pseudo(path=b"/a HTTP/1.1\r\nx-inj: 1\r\n\r\nGET /b")
    V["path_tab"] = _hx_pseudo(path=b"/a\tb")
    V["path_crlf"] = _hx_pseudo(path=b"/a\r\nx-inj: 1")
    V["path_lf"] = _hx_pseudo(path=b"/a\nx")
    V["path_cr"] = _hx_pseudo(path=b"/a\rx")
    V["path_nul"] = _hx_pseudo(path=b"/a\x00b")
    V["path_empty"] = _hx_pseudo(path=b"")
    V["path_noslash"] = _hx_pseudo(path=b"a")
    V["path_fragment"] = _hx_pseudo(path=b"/a#f")
    V["path_absolute_uri"] = _hx_pseudo(path=b"http://other.test/x")
    V["path_double_slash"] = _hx_pseudo(path=b"//other.test/x")
    V["path_hibyte"] = _hx_pseudo(path=b"/\xc3\xa4\xff")
    V["dup_method"] = _hx_pseudo() + [(b":method", b"GET")]
    V["dup_path"] = _hx_pseudo() + [(b":path", b"/other")]
    V["dup_authority"] = _hx_pseudo() + [(b":authority", b"other.test")]
    V["dup_scheme"] = _hx_pseudo() + [(b":scheme", b"https")]
    V["unknown_pseudo"] = _hx_pseudo() + [(b":foo", b"bar")]
    V["response_pseudo"] = _hx_pseudo() + [(b":status", b"200")]
    V["missing_method"] = [x for x in _hx_pseudo() if x[0] != b":method"]
    V["missing_path"] = [x for x in _hx_pseudo() if x[0] != b":path"]
    V["missing_scheme"] = [x for x in _hx_pseudo() if x[0] != b":scheme"]
    V["pseudo_upper"] = [(b":Method", b"POST")] + [x for x in _hx_pseudo() if x[0] != b":method"]
    return V


# header pool for HTTP/2 / HTTP/3 sources: name -> list of fields
def hx_field_pool(response=False):
    P = {}
    P["plain"] = [(b"x-a", b"1")]
    P["upper_name"] = [(b"X-Up", b"1")]
    P["dup"] = [(b"x-d", b"1"), (b"x-d", b"2")]
    P["empty_value"] = [(b"x-e", b"")]
    P["hibyte_value"] = [(b"x-h", b"\xc3\xa4\xff")]
    P["value_htab_inside"] = [(b"x-v", b"a\tb")]
    P["value_colon"] = [(b"x-v", b"a:b: c")]
    P["value_lead_sp"] = [(b"x-v", b" lead")]
    P["value_trail_sp"] = [(b"x-v", b"trail ")]
    P["value_cr"] = [(b"x-v", b"a\rb")]
    P["value_lf"] = [(b"x-v", b"a\nx-inj: 1")]
    P["value_crlf"] = [(b"x-v", b"a\r\nx-inj: 1")]
    P["value_crlfcrlf"] = [(b"x-v", b"a\r\n\r\nGET /inj HTTP/1.1\r\nhost: x\r\n\r\n")]
    P["value_nul"] = [(b"x-v", b"a\x00b")]
    P["value_del"] = [(b"x-v", b"a\x7fb")]
    P["name_sp"] = [(b"x a", b"1")]
    P["name_tab"] = [(b"x\ta", b"1")]
    P["name_cr"] = [(b"x\ra", b"1")]
    P["name_lf"] = [(b"x\nx-inj", b"1")]
    P["name_crlf"] = [(b"x: 1\r\nx-inj", b"1")]
    P["name_nul"] = [(b"x\x00a", b"1")]
    P["name_colon"] = [(b"x:a", b"1")]
    P["name_trailing_colon"] = [(b"x-a:", b"1")]
    P["name_empty"] = [(b"", b"1")]
    P["name_hibyte"] = [(b"x-\xc3\xa4", b"1")]
    P["pseudo_late"] = [(b"x-a", b"1"), (b":path" if not response else b":status", b"/late" if not response else b"404")]
    P["connection"] = [(b"connection", b"close")]
    P["connection_named"] = [(b"connection", b"x-hop"), (b"x-hop", b"1")]
    P["keep_alive"] = [(b"keep-alive", b"timeout=5")]
    P["proxy_connection"] = [(b"proxy-connection", b"keep-alive")]
    P["upgrade"] = [(b"upgrade", b"h2c")]
    P["te_chunked"] = [(b"transfer-encoding", b"chunked")]
    P["te_trailers"] = [(b"te", b"trailers")]
    P["te_gzip"] = [(b"te", b"gzip")]
    if not response:
        P["cookie1"] = [(b"cookie", b"a=1")]
        P["cookie2"] = [(b"cookie", b"a=1"), (b"cookie", b"b=2")]
        P["cookie3"] = [(b"cookie", b"a=1"), (b"x-mid", b"m"), (b"cookie", b"b=2"), (b"cookie", b"c=3; d=4")]
        P["host_same"] = [(b"host", AUTH)]
        P["host_other"] = [(b"host", b"other.test")]
        P["host_twice"] = [(b"host", AUTH), (b"host", b"other.test")]
        P["host_crlf"] = [(b"host", b"example.com\r\nx-inj: 1")]
    else:
        P["set_cookie2"] = [(b"set-cookie", b"a=1"), (b"set-cookie", b"b=2")]
    return P


BODY_FORMS = {
    "none": (None, None),            # (body, content-length header value)
    "empty_data": (b"", None),
    "cl": (b"hello", b"5"),
    "nocl": (b"hello", None),
    "cl0_with_body": (b"hello", b"0"),
    "cl_short": (b"hello", b"3"),
    "cl_long": (b"hello", b"9"),
    "smuggle_nocl": (b"GET /smuggled HTTP/1.1\r\nHost: example.com\r\n\r\n", None),
}
TRAILER_FORMS = {
    "none": None,
    "one": [(b"x-t", b"1")],
    "crlf": [(b"x-t", b"1\r\nx-inj: 1")],
    "pseudo": [(b":path", b"/t")],
}


def hx_request_cases(thorough):
    S = hx_start_variants()
    P = hx_field_pool(False)
    names = list(P)
    out = []

    def case(start="base", hdr=(), body="none", trailers="none"):
        out.append({"dir": "req", "start": start, "hdr": list(hdr), "body": body, "trailers": trailers})

    for s in S:
        case(start=s)
        case(start=s, body="cl")
    for h in names:
        for body in ("none", "cl", "nocl"):
            case(hdr=(h,), body=body)
        case(start="get", hdr=(h,))
    for body in BODY_FORMS:
        for tr in TRAILER_FORMS:
            case(body=body, trailers=tr)
            case(start="get", body=body, trailers=tr)
    pairs = [(a, b) for i, a in enumerate(names) for b in names[i + 1:]]
    if not thorough:
        # pairs in which at least one member is a well-formed field (the other may be adversarial)
        good = {"plain", "dup", "cookie2", "cookie3", "host_same", "empty_value", "te_trailers"}
        pairs = [(a, b) for a, b in pairs if a in good or b in good]
    for a, b in pairs:
        case(hdr=(a, b))
        if thorough:
            case(hdr=(b, a), body="cl")
            case(start="get", hdr=(b, a))
            case(hdr=(a, b), body="cl", trailers="one")
    if thorough:
        for s in S:
            for h in names:
                case(start=s, hdr=(h,))
            case(start=s, body="nocl", trailers="one")
    return out


def hx_response_cases(thorough):
    P = hx_field_pool(True)
    names = list(P)
    out = []
    STAT = {
        "200": [(b":status", b"200")], "204": [(b":status", b"204")], "304": [(b":status", b"304")], "404": [(b":status", b"404")],
        "599": [(b":status", b"599")], "status_sp": [(b":status", b"200 OK")], "status_crlf": [(b":status", b"200\r\nx-inj: 1")],
        "status_nonnum": [(b":status", b"abc")], "status_2digit": [(b":status", b"20")], "status_4digit": [(b":status", b"2000")],
        "status_neg": [(b":status", b"-200")], "status_dup": [(b":status", b"200"), (b":status", b"404")],
        "status_missing": [], "unknown_pseudo": [(b":status", b"200"), (b":foo", b"bar")], "request_pseudo": [(b":status", b"200"), (b":path", b"/")],
    }

    def case(start="200", hdr=(), body="none", trailers="none", method="GET"):
        out.append({"dir": "resp", "start": start, "hdr": list(hdr), "body": body, "trailers": trailers, "method": method})

    for s in STAT:
        case(start=s, hdr=("plain",))
        case(start=s, hdr=("plain",), body="cl")
        case(start=s, hdr=("plain",), body="nocl", method="HEAD")
    for h in names:
        for body in ("none", "cl", "nocl"):
            case(hdr=(h,), body=body)
    for body in BODY_FORMS:
        for tr in TRAILER_FORMS:
            case(body=body, trailers=tr)
        case(start="204", body=body)
        case(start="304", body=body)
        case(body=body, method="HEAD")
    pairs = [(a, b) for i, a in enumerate(names) for b in names[i + 1:]]
    if not thorough:
        good = {"plain", "dup", "set_cookie2", "empty_value"}
        pairs = [(a, b) for a, b in pairs if a in good or b in good]
    for a, b in pairs:
        case(hdr=(a, b), body="cl")
    return out, STAT


# HTTP/1 sources: raw bytes; the expectation is what http1ref reads from them
H1_REQ_LINES = {
    "base": b"POST http://example.com/p HTTP/1.1", "get": b"GET http://example.com/p HTTP/1.1", "method_lower": b"get http://example.com/p HTTP/1.1",
    "auth_port": b"POST http://example.com:8080/p HTTP/1.1", "auth_upper": b"POST http://EXAMPLE.com/p HTTP/1.1",
    "path_root": b"POST http://example.com/ HTTP/1.1", "path_empty": b"POST http://example.com HTTP/1.1", "path_query": b"POST http://example.com/a?b=c&d HTTP/1.1",
    "path_fragment": b"POST http://example.com/a#f HTTP/1.1", "path_hibyte": b"POST http://example.com/\xc3\xa4\xff HTTP/1.1",
    "path_double_slash": b"POST http://example.com//other.test/x HTTP/1.1", "origin_form": b"POST /p HTTP/1.1", "http10": b"POST http://example.com/p HTTP/1.0",
    "userinfo": b"POST http://user:pw@example.com/p HTTP/1.1", "options_star": b"OPTIONS * HTTP/1.1",
}
H1_FIELDS = {
    "plain": [b"X-A: 1"], "upper_name": [b"X-UP: 1"], "dup": [b"x-d: 1", b"x-d: 2"], "empty_value": [b"x-e:"], "hibyte_value": [b"x-h: \xc3\xa4\xff"],
    "value_htab_inside": [b"x-v: a\tb"], "value_colon": [b"x-v: a:b: c"], "value_ows": [b"x-v:  \t a  \t"], "value_nul": [b"x-v: a\x00b"], "value_cr": [b"x-v: a\rb"],
    "obs_fold": [b"x-v: a\r\n b"], "name_sp_before_colon": [b"x-v : a"], "name_hibyte": [b"x-\xc3\xa4: 1"], "name_underscore": [b"x_a: 1"],
    "connection": [b"Connection: close"], "connection_named": [b"Connection: x-hop", b"x-hop: 1"], "keep_alive": [b"Connection: keep-alive", b"Keep-Alive: timeout=5"],
    "proxy_connection": [b"Proxy-Connection: keep-alive"], "upgrade": [b"Upgrade: h2c"], "te_trailers": [b"TE: trailers"], "te_gzip": [b"TE: gzip"],
    "cookie1": [b"Cookie: a=1"], "cookie_joined": [b"Cookie: a=1; b=2"], "cookie2": [b"Cookie: a=1", b"Cookie: b=2"],
    "host_other": [b"Host: other.test"], "host_missing": [], "host_mismatch": [], "expect": [b"Expect: 100-continue"],
    "pseudo_name": [b":path: /x"], "set_cookie2": [b"Set-Cookie: a=1", b"Set-Cookie: b=2"],
}
H1_BODIES = {
    "none": ([], b""), "cl": ([b"Content-Length: 5"], b"hello"), "cl0": ([b"Content-Length: 0"], b""),
    "chunked": ([b"Transfer-Encoding: chunked"], b"3\r\nhel\r\n2\r\nlo\r\n0\r\n\r\n"),
    "chunked_trailers": ([b"Transfer-Encoding: chunked"], b"5\r\nhello\r\n0\r\nx-t: 1\r\n\r\n"),
    "chunked_empty": ([b"Transfer-Encoding: chunked"], b"0\r\n\r\n"),
}
H1_STATUS = {"200": b"HTTP/1.1 200 OK", "200_noreason": b"HTTP/1.1 200", "204": b"HTTP/1.1 204 No Content", "304": b"HTTP/1.1 304 Not Modified",
             "404": b"HTTP/1.1 404 Not Found", "599": b"HTTP/1.1 599 Custom Reason", "http10": b"HTTP/1.0 200 OK", "reason_hibyte": b"HTTP/1.1 200 \xc3\xa4"}
H1_RESP_BODIES = dict(H1_BODIES, eof=([], b"hello"), cl_eof=([b"Content-Length: 5"], b"hello"))


def h1_request_cases(thorough):
    out = []
    fn = [k for k in H1_FIELDS if k != "set_cookie2"]

    def case(start="base", hdr=(), body="none"):
        out.append({"dir": "req", "start": start, "hdr": list(hdr), "body": body, "trailers": "none"})

    for s in H1_REQ_LINES:
        for body in ("none", "cl", "chunked"):
            case(start=s, body=body)
    for h in fn:
        for body in H1_BODIES:
            case(hdr=(h,), body=body)
        case(start="get", hdr=(h,))
    pairs = [(a, b) for i, a in enumerate(fn) for b in fn[i + 1:]]
    if not thorough:
        good = {"plain", "dup", "cookie2", "empty_value", "te_trailers", "connection"}
        pairs = [(a, b) for a, b in pairs if a in good or b in good]
    for a, b in pairs:
        case(hdr=(a, b), body="cl")
    return out


def h1_response_cases(thorough):
    out = []
    fn = [k for k in H1_FIELDS if k not in ("cookie1", "cookie_joined", "cookie2", "host_other", "host_mismatch", "host_missing", "expect")]

    def case(start="200", hdr=(), body="cl", method="GET", eof=False):
        out.append({"dir": "resp", "start": start, "hdr": list(hdr), "body": body, "trailers": "none", "method": method, "eof": eof})

    for s in H1_STATUS:
        for body in H1_RESP_BODIES:
            case(start=s, body=body, eof=body in ("eof", "cl_eof"))
        case(start=s, body="cl", method="HEAD")
    for h in fn:
        for body in ("none", "cl", "chunked", "eof"):
            case(hdr=(h,), body=body, eof=body == "eof")
    pairs = [(a, b) for i, a in enumerate(fn) for b in fn[i + 1:]]
    if not thorough:
        good = {"plain", "dup", "set_cookie2", "empty_value", "connection"}
        pairs = [(a, b) for a, b in pairs if a in good or b in good]
    for a, b in pairs:
        case(hdr=(a, b), body="cl")
    return out


# ---------------------------------------------------------------------------------------------- building messages
def build_hx_request(case):
    S = hx_start_variants()
    P = hx_field_pool(False)
    body, cl = BODY_FORMS[case["body"]]
    fields = [f for h in case["hdr"] for f in P[h]]
    if cl is not None:
        fields = fields + [(b"content-length", cl)]
    return {"pseudo": list(S[case["start"]]), "fields": fields, "body": body, "trailers": TRAILER_FORMS[case["trailers"]]}


def build_hx_response(case):
    _, STAT = hx_response_cases(False)
    P = hx_field_pool(True)
    body, cl = BODY_FORMS[case["body"]]
    fields = [f for h in case["hdr"] for f in P[h]]
    if cl is not None:
        fields = fields + [(b"content-length", cl)]
    return {"pseudo": list(STAT[case["start"]]), "fields": fields, "body": body, "trailers": TRAILER_FORMS[case["trailers"]]}


def build_h1_request(case):
    lines = [H1_REQ_LINES[case["start"]]]
    hs = [f for h in case["hdr"] for f in H1_FIELDS[h]]
    if "host_mismatch" in case["hdr"]:
        lines.append(b"Host: other.test")  # a single Host field that differs from the request-target's authority
    elif "host_missing" not in case["hdr"] and case["start"] != "options_star":
        lines.append(b"Host: example.com:8080" if case["start"] == "auth_port" else b"Host: example.com")
    elif case["start"] == "options_star":
        lines.append(b"Host: example.com")
    bh, bb = H1_BODIES[case["body"]]
    return {"raw": b"\r\n".join(lines + hs + bh) + b"\r\n\r\n" + bb}


def build_h1_response(case):
    lines = [H1_STATUS[case["start"]]]
    hs = [f for h in case["hdr"] for f in H1_FIELDS[h]]
    bh, bb = H1_RESP_BODIES[case["body"]]
    return {"raw": b"\r\n".join(lines + hs + bh) + b"\r\n\r\n" + bb, "eof": case.get("eof", False)}


SIMPLE_HX_REQ = {"GET": {"pseudo": _hx_pseudo(method=b"GET"), "fields": [(b"x-a", b"1")], "body": None, "trailers": None},
                 "HEAD": {"pseudo": _hx_pseudo(method=b"HEAD"), "fields": [(b"x-a", b"1")], "body": None, "trailers": None}}
SIMPLE_HX_RESP = {"pseudo": [(b":status", b"200")], "fields": [(b"x-r", b"1"), (b"content-length", b"2")], "body": b"ok", "trailers": None}
SIMPLE_H1_RESP = {"raw": b"HTTP/1.1 200 OK\r\nx-r: 1\r\nContent-Length: 2\r\n\r\nok"}


def simple_h1_req(method):
    return {"raw": method + b" http://example.com/p HTTP/1.1\r\nHost: example.com\r\nx-a: 1\r\n\r\n"}


# ---------------------------------------------------------------------------------------------- literal reading of the input
def _split_url(target):
    """absolute-form http URL -> (scheme, authority, path) or None"""
    for sch in (b"http://", b"https://"):
        if target.lower().startswith(sch):
            rest = target[len(sch):]
            i = len(rest)
            for ch in (b"/", b"?", b"#"):
                j = rest.find(ch)
                if j >= 0:
                    i = min(i, j)
            auth, path = rest[:i], rest[i:]
            if b"@" in auth:
                auth = auth.rsplit(b"@", 1)[1]
            if not path.startswith(b"/"):
                path = b"/" + path
            if b"#" in path:
                pass
            return sch[:-3], auth, path
    return None


def expect_request(cv, msg):
    """what a next hop must see, read literally from the input; None if the input itself cannot be read"""
    if cv == "h1":
        msgs, verdict = http1ref.parse_requests(msg["raw"])
        if verdict != "ok" or len(msgs) != 1:
            return None, "input:" + verdict
        m = msgs[0]
        method, target, _v = m["start"]
        hosts = [v for n, v in m["fields"] if n.lower() == b"host"]
        u = _split_url(target)
        if u:
            scheme, auth, path = u
            ok_hosts = {auth, *hosts}
        else:
            scheme, path = b"http", target
            ok_hosts = set(hosts)
        return {"method": method, "scheme": scheme, "hosts": ok_hosts, "path": path, "fields": list(m["fields"]), "body": m["body"],
                "trailers": list(m["trailers"])}, "ok"
    ps = {}
    for n, v in msg["pseudo"]:
        ps.setdefault(n, []).append(v)
    hosts = [v for n, v in msg["fields"] if n.lower() == b"host"]
    return {"method": ps.get(b":method", [None]), "scheme": ps.get(b":scheme", [None]), "hosts": set(ps.get(b":authority", [])) | set(hosts),
            "path": ps.get(b":path", [None]), "fields": list(msg["fields"]), "body": msg["body"] or b"", "trailers": list(msg["trailers"] or []),
            "multi": True}, "ok"


def expect_response(sv, msg, method):
    if sv == "h1":
        msgs, verdict = http1ref.parse_responses(msg["raw"], [method], eof=msg.get("eof", False))
        final = [m for m in msgs if not (100 <= int(m["start"][1]) < 200)]
        if not final or len(msgs) != len(final):
            return None, "input:" + verdict
        # bytes after the first complete response (a body sent with 204/304 or in answer to HEAD) are not part of it
        m = final[0]
        return {"status": [int(m["start"][1])], "fields": list(m["fields"]), "body": m["body"], "trailers": list(m["trailers"])}, "ok"
    st = []
    for n, v in msg["pseudo"]:
        if n == b":status":
            try:
                st.append(int(v))
            except ValueError:
                st.append(-1)
    status = st or [None]
    # HTTP/2 and HTTP/3 can carry DATA with any status; an HTTP/1 client cannot (judged by one_h1_message)
    nobody = method == b"HEAD" or any(s in (204, 304) or (s is not None and 100 <= s < 200) for s in st)
    return {"status": status, "fields": list(msg["fields"]), "body": msg["body"] or b"", "trailers": list(msg["trailers"] or []),
            "nobody": nobody}, "ok"


def connection_named(fields):
    named = set()
    for n, v in fields:
        if n.lower() == b"connection":
            for tok in v.split(b","):
                named.add(tok.strip(b" \t").lower())
    return named


def norm_fields(fields, named):
    """end-to-end fields as compared: [(lower name, stripped value)], cookie crumbs separately.
    `named`: field names the *input's* Connection field declares hop-by-hop (not compared on either side)"""
    out, cookies = [], []
    for n, v in fields:
        ln = n.lower()
        if ln == b"cookie":
            cookies.append(v.strip(b" \t"))
            continue
        if ln in NOT_COMPARED or ln in named:
            continue
        out.append((ln, v.strip(b" \t")))
    return out, cookies


def compare_fields(exp_fields, seen_fields, to_h1):
    problems = []
    named = connection_named(exp_fields) | connection_named(seen_fields)
    ef, ec = norm_fields(exp_fields, named)
    sf, sc = norm_fields(seen_fields, named)
    if ef != sf:
        problems.append(("fields", sf, ef))
    if to_h1 and len(sc) > 1:
        problems.append(("several cookie fields towards HTTP/1", sc))
    if b"; ".join(ec) != b"; ".join(sc):
        problems.append(("cookie", sc, ec))
    return problems


def one_of(value, allowed):
    return value in allowed if isinstance(allowed, list) else value == allowed


# ============================================================================================== running one case
def features(case):
    f = {"cv": case["cv"], "sv": case["sv"], "dir": case["dir"], "start": case["start"], "hdr": "+".join(case["hdr"]) or "-",
         "body": case["body"], "trailers": case["trailers"]}
    for h in case["hdr"]:
        f["h:" + h] = True  # one flag per member of the header subset, so that a finding can name a single field
    src_h1 = (case["cv"] if case["dir"] == "req" else case["sv"]) == "h1"
    if src_h1 and any(h in ("obs_fold", "value_nul", "value_cr") for h in case["hdr"]):
        f["h1_ctl_in_value"] = True  # an HTTP/1 field value containing CR LF SP (obs-fold), bare CR or NUL
    src = case["cv"] if case["dir"] == "req" else case["sv"]
    if src == "h1":
        f["data"] = bool((H1_BODIES if case["dir"] == "req" else H1_RESP_BODIES)[case["body"]][1])
    else:
        f["data"] = bool(BODY_FORMS[case["body"]][0])
    if case["dir"] == "resp":
        f["method"] = case.get("method", "GET")
    return f


def run_case(case, t: Tally, verbose=False):
    cv, sv, d = case["cv"], case["sv"], case["dir"]
    feats = features(case)
    method = case.get("method", "GET").encode() if isinstance(case.get("method", "GET"), str) else case.get("method")
    if d == "req":
        req = build_h1_request(case) if cv == "h1" else build_hx_request(case)
        resp = SIMPLE_H1_RESP if sv == "h1" else SIMPLE_HX_RESP
    else:
        req = simple_h1_req(method) if cv == "h1" else SIMPLE_HX_REQ[method.decode()]
        resp = build_h1_response(case) if sv == "h1" else build_hx_response(case)

    w = World(mode="regular", opts={"http2_ping_keepalive": 0}, policy=_policy(sv), snap=h1.http_snap, auto_connect=True, layer_factory=_factory(cv, sv))
    try:
        w.start()
        cl = make_client(cv)
        cl.start(w)
        harness = None
        try:
            cl.send_request(w, req)
        except h3peer.PeerCannotEncode as e:
            harness = "client peer cannot encode this message: %s" % e
        srv = None
        seen_req = {"state": "none"}
        if w.servers and harness is None:
            srv = make_server(sv, w.servers[0])
            srv.poll(w)
            cl.poll(w)
            srv.poll(w)
            seen_req = srv.request(w)
            if seen_req["state"] == "complete":
                try:
                    srv.send_response(w, resp)
                except h3peer.PeerCannotEncode as e:
                    harness = "server peer cannot encode this message: %s" % e
                cl.poll(w)
                srv.poll(w)
                cl.poll(w)
        seen_resp = cl.response(w, method if d == "resp" else _method_of(cv, req))
        if srv is not None:
            seen_req = srv.request(w)
        crashed = list(w.errors)
        nconn = len(w.servers)
        extra_up = [e.w.data for e in w.servers[1:] if e.w.data]
        w.close_out()
        if seen_resp.get("state") in ("none", "partial") and cv == "h1":
            seen_resp = cl.response(w, method if d == "resp" else _method_of(cv, req))
        crashed += [x for x in w.errors if x not in crashed]
    finally:
        w.dispose()

    if verbose:
        print("case", case)
        print("request ", req)
        print("upstream", seen_req)
        print("response", resp if seen_req.get("state") == "complete" else None)
        print("client  ", seen_resp)
        print("errors  ", crashed, "connections", nconn, "harness", harness)

    if harness:
        t.note(harness[:60])
        t.case(None, nontrivial=False, key=case)
        return
    t.judge("no_crash", not crashed, feats, case, "no exception / ERROR log in the proxy core", [c[:300] for c in crashed[:2]])
    if crashed:
        # the layer stack is in an undefined state after an escaped exception: nothing else is judged for this case
        t.case(None, nontrivial=True, key=case)
        return
    if d == "req":
        judge_request(case, feats, cv, sv, req, seen_req, extra_up, t)
    else:
        judge_response(case, feats, cv, sv, resp, seen_req, seen_resp, method, t)


def _method_of(cv, req):
    if cv == "h1":
        return req["raw"].split(b" ", 1)[0]
    for n, v in req["pseudo"]:
        if n == b":method":
            return v
    return b"GET"


def judge_request(case, feats, cv, sv, req, seen, extra_up, t):
    exp, why = expect_request(cv, req)
    state = seen.get("state", "none")
    forwarded = state != "none"
    t.case(case if (forwarded and case["hdr"] and len(t.samples) < 3) else None, nontrivial=forwarded, key=case)
    t.outcome([case["cv"], case["sv"], "req", state, seen.get("verdict"), bool(seen.get("conn_error"))])
    if not forwarded:
        t.ok("reject_ok")
        t.add("requests_refused")
        return
    t.add("requests_forwarded")
    to_h1 = sv == "h1"
    if cv == "h1" and sv == "h1" and exp is None:
        # no translation takes place and the strict reader cannot read the input: relaying it unchanged is C01's subject
        t.note("HTTP/1 input not readable by the strict reader, relayed HTTP/1 to HTTP/1: not judged")
        return
    if to_h1 and cv != "h1":
        # bytes for one message: exactly one well-formed HTTP/1 message (a refusal half-way must leave a visibly
        # incomplete message on a connection mitmproxy closed, never extra bytes)
        raw = seen["raw"]
        ok = (seen["verdict"] == "ok" and seen["n"] == 1) or (seen["verdict"] == "incomplete" and seen["n"] == 0 and seen["closed"])
        t.judge("one_h1_message", ok and not extra_up, feats, case, "exactly one well-formed HTTP/1 request upstream",
                {"verdict": seen["verdict"], "messages": seen["n"], "bytes": raw[:400], "other_connections": [x[:100] for x in extra_up]})
        if not ok or seen["n"] == 0:
            return
    if state != "complete":
        # the stream was opened upstream and then reset / left unfinished: a refusal after the head
        t.ok("reject_ok")
        t.add("requests_refused_after_head")
        return
    if exp is None:
        # the input itself is not one readable message, but something was forwarded as a complete message
        t.judge("semantics_kept", False, feats, case, "unreadable input (%s) is not forwarded" % why, {"forwarded": _brief(seen)})
        return
    problems = []
    multi = exp.get("multi")

    def chk(key, seen_v, exp_v):
        allowed = exp_v if multi else [exp_v]
        if seen_v not in allowed:
            problems.append((key, seen_v, allowed))

    chk("method", seen["method"], exp["method"])
    chk("path", seen["path"], exp["path"])
    if seen.get("scheme") is not None:
        chk("scheme", seen["scheme"], exp["scheme"])
    seen_hosts = [v for n, v in seen["fields"] if n.lower() == b"host"]
    if seen.get("authority") is not None:
        seen_hosts.append(seen["authority"])
    if exp["hosts"]:
        if not seen_hosts:
            problems.append(("authority/Host lost", None, sorted(exp["hosts"])))
        for hv in seen_hosts:
            if hv not in exp["hosts"]:
                problems.append(("authority/Host", hv, sorted(exp["hosts"])))
    if to_h1 and cv != "h1" and len([1 for n, v in seen["fields"] if n.lower() == b"host"]) > 1:
        problems.append(("several Host fields towards HTTP/1", seen_hosts))
    problems += compare_fields(exp["fields"], seen["fields"], to_h1 and cv != "h1")
    if seen["body"] != exp["body"]:
        problems.append(("body", seen["body"], exp["body"]))
    if [(n.lower(), v.strip(b" \t")) for n, v in seen["trailers"]] != [(n.lower(), v.strip(b" \t")) for n, v in exp["trailers"]]:
        problems.append(("trailers", seen["trailers"], exp["trailers"]))
    t.judge("semantics_kept", not problems, feats, case, "next hop decodes the input's method/scheme/authority/path/fields/body/trailers", problems[:4])


def judge_response(case, feats, cv, sv, resp, seen_req, seen, method, t):
    exp, why = expect_response(sv, resp, method)
    state = seen.get("state", "none")
    own_error = state != "none" and any(n.lower() == b"server" and v.startswith(b"mitmproxy") for n, v in seen.get("fields", []))
    delivered = seen_req.get("state") == "complete"
    forwarded = delivered and state in ("complete", "partial") and not own_error
    t.case(case if (forwarded and case["hdr"] and len(t.samples) < 3) else None, nontrivial=forwarded, key=case)
    t.outcome([case["cv"], case["sv"], "resp", state, seen.get("verdict"), own_error, seen.get("status")])
    if not delivered:
        t.note("simple request did not reach the server")
        return
    to_h1 = cv == "h1"
    if own_error and (not to_h1 or seen["closed"]):
        # mitmproxy's own error page followed by closing the connection: a refusal (the page itself is C12's subject)
        t.ok("reject_ok")
        t.add("responses_refused")
        return
    if cv == "h1" and sv == "h1" and exp is None:
        t.note("HTTP/1 input not readable by the strict reader, relayed HTTP/1 to HTTP/1: not judged")
        return
    if to_h1 and sv != "h1" and state != "none":
        ok = (seen["verdict"] == "ok" and seen["n"] == 1) or (seen["verdict"] == "incomplete" and seen["n"] == 0 and seen["closed"])
        t.judge("one_h1_message", ok, feats, case, "exactly one well-formed HTTP/1 response towards the client",
                {"verdict": seen["verdict"], "messages": seen["n"], "bytes": seen["raw"][:400], "closed": seen["closed"]})
        if not ok:
            return
    if not forwarded or state != "complete":
        t.ok("reject_ok")
        t.add("responses_refused")
        return
    t.add("responses_forwarded")
    if exp is None:
        t.judge("semantics_kept", False, feats, case, "unreadable input (%s) is not forwarded" % why, {"forwarded": _brief(seen)})
        return
    problems = []
    if seen["status"] not in exp["status"]:
        problems.append(("status", seen["status"], exp["status"]))
    problems += compare_fields(exp["fields"], seen["fields"], to_h1)
    if seen["body"] != exp["body"] and not (to_h1 and exp.get("nobody")):
        problems.append(("body", seen["body"], exp["body"]))
    if [(n.lower(), v.strip(b" \t")) for n, v in seen["trailers"]] != [(n.lower(), v.strip(b" \t")) for n, v in exp["trailers"]] and not exp.get("nobody"):
        problems.append(("trailers", seen["trailers"], exp["trailers"]))
    t.judge("semantics_kept", not problems, feats, case, "client decodes the input's status/fields/body/trailers", problems[:4])


def _brief(seen):
    return {k: v for k, v in seen.items() if k in ("method", "path", "authority", "fields", "body", "status", "raw")}


# ============================================================================================== enumeration
def all_cases(tier, versions):
    thorough = tier == "thorough"
    out = []
    hx_req = hx_request_cases(thorough)
    hx_resp, _ = hx_response_cases(thorough)
    h1_req = h1_request_cases(thorough)
    h1_resp = h1_response_cases(thorough)
    for cv in versions:
        for sv in versions:
            for c in (h1_req if cv == "h1" else hx_req):
                out.append(dict(c, cv=cv, sv=sv))
            for c in (h1_resp if sv == "h1" else hx_resp):
                out.append(dict(c, cv=cv, sv=sv))
    return out


def chunk_fn(chunk):
    gc.freeze()
    t = Tally()
    for case in chunk:
        run_case(case, t)
    return t


def run(ctx):
    versions = VERSIONS if h3peer.AVAILABLE else ("h1", "h2")
    cases = all_cases(ctx.tier, versions)
    gc.freeze()
    ctx.bounds = {
        "version_pairs": ["%s>%s" % (a, b) for a in versions for b in versions],
        "hx_start_variants": sorted(hx_start_variants()), "hx_field_pool": sorted(hx_field_pool(False)), "hx_response_pool": sorted(hx_field_pool(True)),
        "bodies": sorted(BODY_FORMS), "trailers": sorted(TRAILER_FORMS), "h1_request_lines": sorted(H1_REQ_LINES), "h1_fields": sorted(H1_FIELDS),
        "h1_bodies": sorted(H1_RESP_BODIES), "field_subset_size": 2, "pairs": ctx.pick("one member well-formed", "all pairs, both orders"),
        "cases": len(cases),
    }
    ctx.log("%d cases over %d version pairs" % (len(cases), len(versions) ** 2))
    # determinism: the same case twice gives identical observations
    for c in (cases[0], cases[len(cases) // 3], cases[-1]):
        a, b = Tally(), Tally()
        run_case(c, a)
        run_case(c, b)
        if a.clauses != b.clauses or a.outcomes != b.outcomes or sorted(a.violations) != sorted(b.violations):
            from vmc.tally import HarnessError

            raise HarnessError("case %r is not deterministic" % (c,))
    par.pmap_tally(chunk_fn, cases, ctx.tally, nchunks=256)


def replay(case, t, verbose=False):
    run_case(case, t, verbose=verbose)
