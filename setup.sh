#!/bin/bash
# Run once after a fresh restore, offline.  Nothing is compiled: the framework is
# pure Python run by /venv/bin/python against /repo's working tree.
set -e
cd "$(dirname "$0")"
mkdir -p evidence replays
chmod +x check
/venv/bin/python -B -c "import mitmproxy, sys; sys.path.insert(0,'.'); import vmc.main, vmc.explore, vmc.par; print('vmc ok; mitmproxy from', mitmproxy.__file__)"
