"""C34 - query / cookie / form / path views are lossless.

Engine E: for each of the six views (`Request.query`, `.urlencoded_form`, `.cookies`,
`.multipart_form`, `.path_components`, `Response.cookies`) every list of pairs up to a length
bound over a per-format alphabet is assigned to every kind of prior message, read back through
the real view and compared pair by pair; then the view's current value is written back and the
message is compared by *independent* parsers written here (WHATWG urlencoded, RFC 2109/6265
cookie pairs, RFC 6265 Set-Cookie, RFC 2046/7578 multipart, RFC 3986 path segments).  Finally a
list of well-formed messages *not* produced by mitmproxy is rewritten through each view
(`v = m.view; m.view = v`) and must keep its independently parsed meaning.

Each alphabet has its representability rule written next to it: only pair lists the wire format
can carry are enumerated.
"""
from __future__ import annotations

import itertools
import re

import mitmproxy.http as mhttp
from mitmproxy.http import Headers, Request, Response
from mitmproxy.net.http.cookies import CookieAttrs

from vmc import par
from vmc.tally import HarnessError, Tally

META = {
    "level": "exploration",
    "technique": "bounded-exhaustive enumeration of pair lists over per-format alphabets x prior messages on the real views, "
    "read back through the view and cross-checked by independent wire-format parsers",
    "claim": "within the stated alphabets and list lengths every assignment was executed on the real setters/getters and every listed "
    "foreign message was rewritten through its view; exploration because the space is an input grammar, no state graph",
    "rule": "a case is (view, prior message, pair list) or (view, existing foreign message); distinct = distinct such tuples; "
    "non-trivial = the pair list (or the existing message's view) is non-empty, so encoder and decoder both ran on at least one pair",
    "assumptions": [
        "'a view's current value' is its pair sequence (`view.fields`): the setters are typed as taking a sequence of pairs; passing the view object itself "
        "(`m.query = m.query`, which goes through dict-style items() and drops duplicate keys) is not demanded",
        "str keys/values are canonical surrogateescape strings (s == s.encode('utf-8','surrogateescape').decode(...)); other lone surrogates cannot reach the wire",
        "cookie values may use the RFC 2109/2965 quoted-string form (backslash escapes) that mitmproxy's cookie module documents; a quoted and an unquoted spelling of the same value mean the same",
        "cookie names are RFC 6265 tokens; Set-Cookie attributes follow RFC 6265 (Expires is an rfc1123-date, Path has no ';' and no CTL)",
        "multipart: value bytes are arbitrary; a value may not contain the delimiter line of a boundary dictated by an existing Content-Type header",
        "multipart field names: no CR/LF (a MIME quoted-string cannot hold them); a double quote is representable (quoted-pair in RFC 2183/822, %22 in WHATWG) and is enumerated as its own class",
        "path components are non-empty strings (an empty component is not distinguishable from an absent one through this view)",
        "meaning of a message = independently parsed pairs of the viewed part + every other request field byte-for-byte; content-length and the "
        "content-type parameters of a urlencoded body are not compared; an added part Content-Type of text/plain is not counted as a change",
        "view mutators (add/insert/set_all) are outside the statement and not judged",
    ],
}

# ---------------------------------------------------------------------------
# independent reference parsers


def pct_decode(b: bytes) -> bytes:
    out = bytearray()
    i = 0
    while i < len(b):
        if b[i] == 0x25 and re.fullmatch(rb"[0-9A-Fa-f]{2}", b[i + 1:i + 3]):
            out.append(int(b[i + 1:i + 3], 16))
            i += 3
        else:
            out.append(b[i])
            i += 1
    return bytes(out)


def ref_urlencoded(bs: bytes):
    """WHATWG application/x-www-form-urlencoded parser -> list of (name bytes, value bytes)"""
    out = []
    for seq in bs.split(b"&"):
        if not seq:
            continue
        name, _, value = seq.partition(b"=")
        out.append((pct_decode(name.replace(b"+", b" ")), pct_decode(value.replace(b"+", b" "))))
    return out


def split_target(path: str):
    """request-target -> (path part incl. params, query or None, fragment or None)"""
    frag = None
    if "#" in path:
        path, frag = path.split("#", 1)
    query = None
    if "?" in path:
        path, query = path.split("?", 1)
    return path, query, frag


def ref_segments(path_part: str):
    segs = path_part.split("/")[1:] if path_part.startswith("/") else path_part.split("/")
    return [pct_decode(s.encode("utf-8", "surrogateescape")) for s in segs]


def _split_outside_quotes(s: str, sep: str):
    out, cur, inq, esc = [], [], False, False
    for ch in s:
        if inq:
            cur.append(ch)
            if esc:
                esc = False
            elif ch == "\\":
                esc = True
            elif ch == '"':
                inq = False
        elif ch == '"' and (not cur or cur[-1] == "="):  # a quoted-string can only start a value
            inq = True
            cur.append(ch)
        elif ch == sep:
            out.append("".join(cur))
            cur = []
        else:
            cur.append(ch)
    out.append("".join(cur))
    return out


def _unquote(v: str) -> str:
    if len(v) >= 2 and v.startswith('"') and v.endswith('"'):
        out, esc = [], False
        for ch in v[1:-1]:
            if esc:
                out.append(ch)
                esc = False
            elif ch == "\\":
                esc = True
            else:
                out.append(ch)
        return "".join(out)
    return v


def ref_cookie_pairs(header_values):
    """Cookie header(s) -> [(name, value)] (RFC 6265 4.2.1 with RFC 2109 quoted-string values)"""
    out = []
    for hv in header_values:
        for item in _split_outside_quotes(hv, ";"):
            item = item.strip(" \t")
            if not item:
                continue
            name, eq, value = item.partition("=")
            out.append((name.strip(" \t"), _unquote(value.strip(" \t"))))
    return out


def ref_set_cookie(hv: str):
    """one Set-Cookie header value -> (name, value, [(attr-name, attr-value or None)]) (RFC 6265 4.1.1; no comma splitting)"""
    items = _split_outside_quotes(hv, ";")
    name, eq, value = items[0].strip(" \t").partition("=")
    attrs = []
    for it in items[1:]:
        it = it.strip(" \t")
        if not it:
            continue
        an, aeq, av = it.partition("=")
        attrs.append((an.strip(" \t").lower(), _unquote(av.strip(" \t")) if aeq else None))
    return (name.strip(" \t"), _unquote(value.strip(" \t")), attrs)


def ref_boundary(ct: str):
    m = re.search(r';\s*boundary\s*=\s*(?:"([^"]*)"|([^;\s]*))', ct, re.I)
    if not m:
        return None
    return (m.group(1) if m.group(1) is not None else m.group(2)).encode("ascii", "replace")


def ref_multipart(ct: str, body: bytes):
    """RFC 2046 5.1.1 body -> [(name bytes, filename bytes|None, content bytes)] or None when malformed"""
    b = ref_boundary(ct)
    if not b:
        return None
    delim = b"\r\n--" + b
    data = b"\r\n" + body  # so that a delimiter at the very start is found the same way
    chunks = data.split(delim)
    parts = []
    closed = False
    for ch in chunks[1:]:
        if ch.startswith(b"--"):
            closed = True
            break
        # transport padding then CRLF
        m = re.match(rb"[ \t]*\r\n", ch)
        if not m:
            return None
        ch = ch[m.end():]
        if ch.startswith(b"\r\n"):
            head, content = b"", ch[2:]
        else:
            head, sep, content = ch.partition(b"\r\n\r\n")
            if not sep:
                return None
        name = filename = None
        for line in head.split(b"\r\n"):
            if line.lower().startswith(b"content-disposition:"):
                mn = re.search(rb'[;\s]name="((?:[^"\\]|\\.)*)"', line)
                mf = re.search(rb'[;\s]filename="((?:[^"\\]|\\.)*)"', line)
                name = re.sub(rb"\\(.)", rb"\1", mn.group(1)) if mn else None
                filename = re.sub(rb"\\(.)", rb"\1", mf.group(1)) if mf else None
        parts.append((name, filename, content))
    if not closed:
        return None
    return parts


# ---------------------------------------------------------------------------
# alphabets.  Tokens are (kind, value).


def canonical(s: str) -> bool:
    try:
        return s.encode("utf-8", "surrogateescape").decode("utf-8", "surrogateescape") == s
    except UnicodeError:
        return False


# query / urlencoded form.  Representability: every canonical surrogateescape str (any byte string) can be
# percent-encoded, as key or as value, including the empty string; order and duplicates are kept by '&'.
QF_TOK = [
    ("plain", "a"), ("empty", ""), ("space", " "), ("plus", "+"), ("amp", "&"), ("eq", "="), ("semi", ";"),
    ("pct", "%"), ("pct-seq", "%41"), ("non-ascii", "é"), ("raw-byte", "\udcff"), ("hash", "#"), ("qmark", "?"), ("slash", "/"),
    ("plain", "b c"),
]
QF_QUICK_KEYS = [0, 1, 4, 5, 9]

# Cookie header.  Representability: name = RFC 6265 token (non-empty, no separators, no whitespace);
# value = any str without CTL (CR, LF, NUL cannot be in a header value), written as token or quoted-string.
CK_NAMES = [("plain", "a"), ("plain", "B"), ("reserved-attr-name", "expires"), ("reserved-attr-name", "path"), ("token-specials", "!#$%&'*+-.^_`|~1")]
CK_VALUES = [
    ("plain", "a"), ("empty", ""), ("space", " "), ("space", "a b"), ("space", " a "), ("semi", ";"), ("comma", ","), ("dquote", '"'),
    ("backslash", "\\"), ("eq", "="), ("non-ascii", "é"), ("dquote", '"q"'), ("dquote", 'a"b'), ("backslash", '\\"'), ("semi", "a;b=c"),
    ("raw-byte", "\udcff"), ("tab", "a\tb"), ("plain", "abcd"),
]
CK_QUICK_VALUES = [0, 1, 3, 5, 6, 7, 8, 9, 10, 13]

# Set-Cookie attributes (RFC 6265 4.1.1).  Representability: Expires = rfc1123-date (always has the comma),
# Max-Age = digits, Domain = host name (or empty), Path = any CHAR except CTL and ';' (so ',' and ' ' are allowed),
# Secure/HttpOnly carry no value (None).
SC_ATTRS = [
    ("none", []),
    ("path", [("Path", "/")]),
    ("domain", [("Domain", "example.com")]),
    ("expires", [("Expires", "Sun, 06 Nov 1994 08:49:37 GMT")]),
    ("unary", [("HttpOnly", None)]),
    ("max-age", [("Max-Age", "0")]),
    ("several", [("path", "/a b"), ("Secure", None), ("SameSite", "Lax"), ("Domain", "")]),
    ("duplicate", [("Path", "/"), ("Path", "/x")]),
    ("expires", [("Max-Age", "3600"), ("Expires", "Sun, 06 Nov 1994 08:49:37 GMT"), ("HttpOnly", None)]),
    ("path-with-comma", [("Path", "/a,b")]),
]

# multipart/form-data.  Representability: name = non-empty bytes without CR/LF; value = any bytes that do not
# contain the delimiter line ("--" boundary on a line of its own) of the boundary in use.
MP_KEYS = [
    ("plain", b"k"), ("plain", b"a b"), ("param-like", b"k;x=y"), ("non-ascii", "é".encode()), ("raw-byte", b"\xff"), ("backslash", b"a\\b"),
    ("plain", b"name"), ("filename-like", b"k.png"), ("dquote", b'a"b'),
]
MP_VALUES = [
    ("plain", b"v"), ("empty", b""), ("crlf-inside", b"a\r\nb"), ("lf-inside", b"a\nb"), ("cr-inside", b"a\rb"), ("trailing-crlf", b"a\r\n"),
    ("leading-crlf", b"\r\nb"), ("dashes", b"--"), ("dashes", b"--xyz"), ("binary", b"\x00\xff\xfe"), ("binary", b"\x0b\x0c\x1c\x85"),
    ("crlf-inside", b"a\r\n\r\nb"), ("header-like", b'Content-Disposition: form-data; name="x"'), ("boundary-substring", b"x--BBy"),
    ("crlf-inside", b"a\r\n--xyz\r\nb"),
]
MP_QUICK_KEYS = [0, 2, 3, 8]
MP_QUICK_VALUES = [0, 1, 2, 3, 5, 7, 8, 9, 13]

# path components.  Representability: any non-empty canonical surrogateescape str (every byte can be percent-encoded,
# '/' as %2F); the empty list is the path "/".
PC_TOK = [
    ("plain", "a"), ("slash", "/"), ("pct-seq", "%2F"), ("space", " "), ("non-ascii", "é"), ("dots", ".."), ("dots", "."), ("qmark", "?"), ("hash", "#"),
    ("semi", ";"), ("pct", "%"), ("plus", "+"), ("raw-byte", "\udcff"), ("semi", "a;b"), ("colon-at", ":@"), ("plain", "~b"),
]

for _k, _s in QF_TOK + CK_VALUES + PC_TOK + CK_NAMES:
    assert canonical(_s), _s

# ---------------------------------------------------------------------------
# prior messages


def req(path=b"/old", headers=(), content=b"", host="h.example", ver=b"HTTP/1.1"):
    return Request(host, 8080, b"POST", b"http", b"", path, ver, Headers([(b"Host", b"h.example:8080"), (b"X-Other", b"1")] + list(headers)), content, None, 0.0, 0.0)


def resp(headers=()):
    return Response(b"HTTP/1.1", 200, b"OK", Headers([(b"X-Other", b"1")] + list(headers)), b"body", None, 0.0, 0.0)


E_MP_SIMPLE = (b'--BB\r\nContent-Disposition: form-data; name="a"\r\n\r\n1\r\n--BB\r\nContent-Disposition: form-data; name="b"\r\n\r\n\r\n--BB--\r\n')
E_MP_TYPED = (b'--BB\r\nContent-Disposition: form-data; name="a"\r\nContent-Type: text/plain\r\n\r\nx y\r\n--BB--\r\n')
E_MP_FILE = (b'--BB\r\nContent-Disposition: form-data; name="f"; filename="p.png"\r\nContent-Type: image/png\r\n\r\n\x89PNG\r\n--BB--\r\n')
E_MP_LINES = (b'--BB\r\nContent-Disposition: form-data; name="t"\r\n\r\nline1\r\nline2\r\n--BB--\r\n')
CT_BB = (b"content-type", b"multipart/form-data; boundary=BB")
CT_FORM = (b"content-type", b"application/x-www-form-urlencoded")

PRIORS = {
    "query": {
        "no-query": lambda: req(b"/p"),
        "old-query": lambda: req(b"/p?old=1&x"),
        "params-fragment": lambda: req(b"/p;par?old#frag"),
        "double-slash": lambda: req(b"//p"),
        "root-ipv6-host": lambda: req(b"/", host="::1"),
    },
    "urlencoded_form": {
        "no-content-type": lambda: req(),
        "old-form": lambda: req(headers=[CT_FORM], content=b"old=1&x=2"),
        "old-form-no-equals-style": lambda: req(headers=[(b"Content-Type", b"application/x-www-form-urlencoded; charset=utf-8")], content=b"a&b=1"),
        "other-body": lambda: req(headers=[(b"content-type", b"text/plain")], content=b"hello"),
    },
    "request_cookies": {
        "no-cookie": lambda: req(),
        "old-cookie": lambda: req(headers=[(b"Cookie", b"old=1; o2=2")]),
        "two-cookie-headers": lambda: req(headers=[(b"cookie", b"old=1"), (b"Accept", b"*/*"), (b"Cookie", b"o2=2")]),
    },
    "response_cookies": {
        "no-set-cookie": lambda: resp(),
        "old-set-cookie": lambda: resp(headers=[(b"Set-Cookie", b"old=1; Path=/")]),
        "two-set-cookie": lambda: resp(headers=[(b"set-cookie", b"old=1"), (b"Vary", b"x"), (b"Set-Cookie", b"o2=2; HttpOnly")]),
    },
    "multipart_form": {
        "no-content-type": lambda: req(),
        "boundary-BB": lambda: req(headers=[CT_BB], content=E_MP_SIMPLE),
        "boundary-BB-after-charset": lambda: req(headers=[(b"Content-Type", b"Multipart/Form-Data; charset=utf-8; boundary=BB")], content=E_MP_SIMPLE),
        "quoted-boundary": lambda: req(headers=[(b"content-type", b'multipart/form-data; boundary="BB"')], content=E_MP_SIMPLE),
        "other-body": lambda: req(headers=[CT_FORM], content=b"a=1"),
    },
    "path_components": {
        "plain": lambda: req(b"/old"),
        "params-query-fragment": lambda: req(b"/old/x;par?q=1#frag"),
        "root": lambda: req(b"/"),
        "double-slash-ipv6-host": lambda: req(b"//x", host="::1"),
    },
}

# well-formed messages not produced by mitmproxy, to be rewritten through the view
EXISTING = {
    "query": {
        "dup-keys": lambda: req(b"/p?a=1&a=2&b=3"),
        "no-equals": lambda: req(b"/p?x&y=1"),
        "eq-in-value": lambda: req(b"/p;par?a=b=c#frag"),
        "plus-and-pct": lambda: req(b"/p?a+b=c%20d&e=%C3%A9&f=%FF"),
        "empty-key": lambda: req(b"/p?=x"),
        "empty-items": lambda: req(b"/p?&&a=1&"),
        "semicolon": lambda: req(b"/p?a=1;b=2"),
        "invalid-pct": lambda: req(b"/p?a=%zz&b=%"),
        "raw-utf8": lambda: req("/p?a=é".encode()),
    },
    "urlencoded_form": {
        "dup-keys": lambda: req(headers=[CT_FORM], content=b"a=1&a=2&b=3"),
        "no-equals": lambda: req(headers=[CT_FORM], content=b"x&y=1"),
        "eq-in-value": lambda: req(headers=[CT_FORM], content=b"a=b=c"),
        "plus-and-pct": lambda: req(headers=[CT_FORM], content=b"a+b=c%20d&e=%C3%A9&f=%FF"),
        "empty-items": lambda: req(headers=[CT_FORM], content=b"&&a=1&"),
        "empty-pair": lambda: req(headers=[CT_FORM], content=b"=&a=1"),
    },
    "request_cookies": {
        "two-pairs": lambda: req(headers=[(b"Cookie", b"a=1; b=2")]),
        "two-headers": lambda: req(headers=[(b"Cookie", b"a=1"), (b"Cookie", b"b=2")]),
        "no-space": lambda: req(headers=[(b"Cookie", b"a=1;b=2")]),
        "quoted": lambda: req(headers=[(b"Cookie", b'a="x y"; b="q\\"r"; c=3')]),
        "eq-in-value": lambda: req(headers=[(b"Cookie", b"a=b=c; d==")]),
        "empty-items": lambda: req(headers=[(b"Cookie", b"a=1;; b=2; ")]),
        "empty-value": lambda: req(headers=[(b"Cookie", b"a=; b=2")]),
    },
    "response_cookies": {
        "attrs": lambda: resp(headers=[(b"Set-Cookie", b"a=b; Path=/; HttpOnly")]),
        "expires": lambda: resp(headers=[(b"Set-Cookie", b"a=b; Expires=Sun, 06 Nov 1994 08:49:37 GMT; Max-Age=0")]),
        "quoted": lambda: resp(headers=[(b"Set-Cookie", b'a="x y"; Path=/')]),
        "two-headers": lambda: resp(headers=[(b"Set-Cookie", b"a=1; Secure"), (b"Set-Cookie", b"a=2; Domain=example.com")]),
        "no-space": lambda: resp(headers=[(b"Set-Cookie", b"a=b;Path=/;Secure")]),
    },
    "multipart_form": {
        "mp-simple": lambda: req(headers=[CT_BB], content=E_MP_SIMPLE),
        "mp-part-content-type": lambda: req(headers=[CT_BB], content=E_MP_TYPED),
        "mp-file-part": lambda: req(headers=[CT_BB], content=E_MP_FILE),
        "mp-multi-line-value": lambda: req(headers=[CT_BB], content=E_MP_LINES),
    },
    "path_components": {
        "plain": lambda: req(b"/a/b"),
        "encoded-slash": lambda: req(b"/a%2Fb/c?q#f"),
        "pct-and-plus": lambda: req(b"/%E9/a+b/a%20b/%c3%a9"),
        "params": lambda: req(b"/a;x/b;y?q=1#f"),
        "sub-delims": lambda: req(b"/a:b@c/~d/e,f"),
        "root": lambda: req(b"/"),
    },
}

VIEWS = list(PRIORS)


class _OsProxy:
    """mitmproxy.http's `os`, with a deterministic urandom (multipart boundary)"""

    def __init__(self, real):
        self._real = real

    def urandom(self, n):
        return bytes((i * 37 + 11) & 0xFF for i in range(n))

    def __getattr__(self, name):
        return getattr(self._real, name)


if not isinstance(mhttp.os, _OsProxy):
    mhttp.os = _OsProxy(mhttp.os)


# ---------------------------------------------------------------------------
# driving the real views


def jpairs(view, pairs):
    """case JSON -> the Python value handed to the setter"""
    if view == "response_cookies":
        return [(k, (v[0], CookieAttrs([tuple(a) for a in v[1]]))) for k, v in pairs]
    if view == "path_components":
        return list(pairs)
    return [tuple(p) for p in pairs]


def assign(view, m, value):
    if view == "query":
        m.query = value
    elif view == "urlencoded_form":
        m.urlencoded_form = value
    elif view in ("request_cookies", "response_cookies"):
        m.cookies = value
    elif view == "multipart_form":
        m.multipart_form = value
    elif view == "path_components":
        m.path_components = value
    else:
        raise HarnessError(view)


def read(view, m):
    """the view's current pairs, in a comparable plain form"""
    if view == "path_components":
        return list(m.path_components)
    v = {"query": lambda: m.query, "urlencoded_form": lambda: m.urlencoded_form, "request_cookies": lambda: m.cookies,
         "response_cookies": lambda: m.cookies, "multipart_form": lambda: m.multipart_form}[view]()
    items = list(v.items(multi=True))
    if view == "response_cookies":
        return [(k, (val[0], [tuple(f) for f in val[1].fields])) for k, val in items]
    return [tuple(p) for p in items]


def current_value(view, m):
    """what `v = m.view` holds: the pair sequence, as the view hands it out"""
    if view == "path_components":
        return m.path_components
    v = {"query": lambda: m.query, "urlencoded_form": lambda: m.urlencoded_form, "request_cookies": lambda: m.cookies,
         "response_cookies": lambda: m.cookies, "multipart_form": lambda: m.multipart_form}[view]()
    return v.fields


def expected(view, pairs):
    if view == "response_cookies":
        return [(k, (v[0], [tuple(a) for a in v[1]])) for k, v in pairs]
    if view == "path_components":
        return list(pairs)
    return [tuple(p) for p in pairs]


def hdr_text(v: bytes) -> str:
    return v.decode("utf-8", "surrogateescape")


def meaning(view, m):
    """(independently parsed meaning of the viewed part, everything else byte-for-byte)"""
    d = m.data
    hdrs = list(d.headers.fields)
    if view in ("query", "path_components"):
        path, query, frag = split_target(d.path.decode("utf-8", "surrogateescape"))
        base = (d.method, d.scheme, d.host, d.port, d.authority, d.http_version, tuple(hdrs), d.content)
        if view == "query":
            return ref_urlencoded((query or "").encode("utf-8", "surrogateescape")), (path, frag) + base
        # the last segment's ";params" stay where they are: compare whole percent-decoded segments
        return ref_segments(path), (query, frag) + base
    if view == "request_cookies":
        mine = [hdr_text(v) for k, v in hdrs if k.lower() == b"cookie"]
        rest = [(k, v) for k, v in hdrs if k.lower() != b"cookie"]
        return ref_cookie_pairs(mine), (d.method, d.path, d.content, tuple(rest))
    if view == "response_cookies":
        mine = [hdr_text(v) for k, v in hdrs if k.lower() == b"set-cookie"]
        rest = [(k, v) for k, v in hdrs if k.lower() != b"set-cookie"]
        return [ref_set_cookie(v) for v in mine], (d.status_code, d.reason, d.content, tuple(rest))
    rest = tuple((k, v) for k, v in hdrs if k.lower() not in (b"content-type", b"content-length"))
    base = (d.method, d.path, rest)
    cts = [hdr_text(v) for k, v in hdrs if k.lower() == b"content-type"]
    ct = cts[0] if len(cts) == 1 else ""
    if view == "urlencoded_form":
        return (ct.split(";")[0].strip().lower(), ref_urlencoded(d.content or b"")), base
    if view == "multipart_form":
        return (ct.split(";")[0].strip().lower(), ref_multipart(ct, d.content or b"")), base
    raise HarnessError(view)


def try_(f):
    try:
        return f(), None
    except KeyboardInterrupt:
        raise
    except BaseException as ex:  # noqa
        return None, ex


# ---------------------------------------------------------------------------
# kinds (features) of a pair


def _kind(table, val):
    for k, v in table:
        if v == val:
            return k
    return "other"


def pair_kinds(view, pair):
    """-> dict of coarse features of one expected pair"""
    if pair is None:
        return {"key_kind": "none", "val_kind": "none"}
    if view in ("query", "urlencoded_form"):
        f = {"key_kind": _kind(QF_TOK, pair[0]), "val_kind": _kind(QF_TOK, pair[1])}
        if pair[0] == "" and pair[1] == "":
            f["val_kind"] = "empty-pair"
        return f
    if view == "request_cookies":
        return {"key_kind": _kind(CK_NAMES, pair[0]), "val_kind": _kind(CK_VALUES, pair[1])}
    if view == "response_cookies":
        attrs = [tuple(a) for a in pair[1][1]]
        return {"key_kind": _kind(CK_NAMES, pair[0]), "val_kind": _kind(CK_VALUES, pair[1][0]), "attr_kind": _kind(SC_ATTRS, attrs)}
    if view == "multipart_form":
        return {"key_kind": _kind(MP_KEYS, pair[0]), "val_kind": _kind(MP_VALUES, pair[1])}
    if view == "path_components":
        return {"val_kind": _kind(PC_TOK, pair)}
    raise HarnessError(view)


def first_diff(exp, obs):
    """-> (index, how) of the first difference between two pair lists, or None"""
    for i in range(max(len(exp), len(obs))):
        if i >= len(obs):
            return i, "missing"
        if i >= len(exp):
            return i, "extra"
        if exp[i] != obs[i]:
            if isinstance(exp[i], tuple) and isinstance(obs[i], tuple) and len(obs[i]) == 2:
                return i, ("key" if exp[i][0] != obs[i][0] else "value")
            return i, "value"
    return None


def multipart_change(before, after) -> str:
    """name the way a multipart body's independently parsed parts changed (coarse)"""
    if after is None:
        return "malformed"
    if len(after) != len(before) or [p[0] for p in after] != [p[0] for p in before]:
        return "names"
    if [p[1] for p in after] != [p[1] for p in before]:
        return "filename-dropped"
    if all(a[2] == b[2] + b"\r\n" for a, b in zip(after, before)):
        return "values-gain-crlf"
    return "value-changed"


# ---------------------------------------------------------------------------
# one case


def run_case(case, t: Tally, verbose=False):
    view, mode, prior = case["view"], case["mode"], case["prior"]
    say = print if verbose else (lambda *a: None)
    feats0 = {"view": view, "prior": prior}

    if mode == "existing":
        m = EXISTING[view][prior]()
        before = meaning(view, m)
        if before[0] is None or (view == "multipart_form" and before[0][1] is None):
            raise HarnessError("existing message %s/%s is not well-formed for the reference parser" % (view, prior))
        val, ex = try_(lambda: current_value(view, m))
        say("  view value:", val if ex is None else repr(ex))
        if ex is None:
            _, ex = try_(lambda: assign(view, m, val))
        if ex is not None:
            t.bad("write_back_is_noop", dict(feats0, how="raises", exc=type(ex).__name__), case, "no exception", repr(ex))
        else:
            after = meaning(view, m)
            say("  before:", before[0], "\n  after: ", after[0])
            how = "" if after == before else ("rest-of-message" if after[0] == before[0] else "viewed-part")
            if how == "viewed-part" and view == "multipart_form":
                how = multipart_change(before[0][1], after[0][1])
            t.judge("write_back_is_noop", not how, dict(feats0, how=how), case, before, after)
        t.outcome((view, prior, m.data.get_state() if hasattr(m.data, "get_state") else None))
        t.case(case, nontrivial=bool(val), key=case)
        return

    pairs = case["pairs"]
    exp = expected(view, pairs)
    m = PRIORS[view][prior]()
    rest_before = meaning(view, m)[1]
    _, ex = try_(lambda: assign(view, m, jpairs(view, pairs)))
    obs = None
    if ex is None:
        obs, ex = try_(lambda: read(view, m))
    say("  assigned", exp, "\n  read    ", obs if ex is None else repr(ex))
    if verbose and ex is None:
        say("  message ", m.data.path if view in ("query", "path_components") else (list(m.data.headers.fields), m.data.content))
    if ex is not None:
        blame = exp[0] if exp else None
        worst = [p for p in exp if any(v not in ("plain", "none") for v in pair_kinds(view, p).values())]
        f = dict(feats0, how="raises", exc=type(ex).__name__, **pair_kinds(view, worst[0] if worst else blame))
        t.bad("assign_then_read_same_pairs_same_order", f, case, exp, repr(ex))
        t.case(None, nontrivial=bool(pairs), key=case)
        return
    d = first_diff(exp, obs)
    if d is None:
        t.ok("assign_then_read_same_pairs_same_order")
    else:
        i, how = d
        blame = exp[i] if i < len(exp) else (exp[-1] if exp else None)
        t.bad("assign_then_read_same_pairs_same_order", dict(feats0, how=how, **pair_kinds(view, blame)), case, exp, obs)
    # the rest of the message is not touched by an assignment through the view
    rest_after = meaning(view, m)[1]
    if view in ("query", "path_components", "request_cookies", "response_cookies"):
        t.judge("assignment_leaves_rest_of_message", rest_after == rest_before, dict(feats0, how="rest-of-message"), case, rest_before, rest_after)
    # write the current value back: nothing may change for an independent reader
    before = meaning(view, m)
    val, ex = try_(lambda: current_value(view, m))
    if ex is None:
        _, ex = try_(lambda: assign(view, m, val))
    wf = dict(feats0, written_by="mitmproxy")
    if ex is not None:
        t.bad("write_back_is_noop", dict(wf, how="raises", exc=type(ex).__name__), case, "no exception", repr(ex))
    else:
        after = meaning(view, m)
        how = "" if after == before else ("rest-of-message" if after[0] == before[0] else "viewed-part")
        # only meaningful when the first read was right: otherwise the message already differs from what was assigned
        if d is None:
            t.judge("write_back_is_noop", not how, dict(wf, how=how), case, before, after)
    t.outcome((view, obs))
    t.case(case if len(pairs) == 2 and len(t.samples) < 2 else None, nontrivial=bool(pairs), key=case)


# ---------------------------------------------------------------------------
# enumeration


def pair_pools(view, thorough):
    """-> (full pool, reduced pool) of single pairs (JSON-able)"""
    if view in ("query", "urlencoded_form"):
        keys = range(len(QF_TOK)) if thorough else QF_QUICK_KEYS
        full = [[QF_TOK[k][1], v[1]] for k in keys for v in QF_TOK]
        small = [["a", ""], ["", ""], ["&", "="], ["é", "\udcff"], ["a", "b c"], ["a", "+"]]
    elif view == "request_cookies":
        vals = range(len(CK_VALUES)) if thorough else CK_QUICK_VALUES
        full = [[n[1], CK_VALUES[v][1]] for n in CK_NAMES for v in vals]
        small = [["a", "a"], ["a", ""], ["B", "a b"], ["a", '"'], ["expires", ";"], ["a", "\\"]]
    elif view == "response_cookies":
        vals = range(len(CK_VALUES)) if thorough else CK_QUICK_VALUES
        full = [[n[1], [CK_VALUES[v][1], [list(a) for a in at[1]]]] for n in CK_NAMES for v in vals for at in SC_ATTRS]
        small = [["a", ["a", []]], ["a", ["", [["Path", "/"]]]], ["B", ["a b", [["HttpOnly", None]]]], ["a", [",", [["Expires", "Sun, 06 Nov 1994 08:49:37 GMT"]]]],
                 ["a", ['"', [["Max-Age", "0"], ["Secure", None]]]]]
    elif view == "multipart_form":
        keys = range(len(MP_KEYS)) if thorough else MP_QUICK_KEYS
        vals = range(len(MP_VALUES)) if thorough else MP_QUICK_VALUES
        full = [[MP_KEYS[k][1], MP_VALUES[v][1]] for k in keys for v in vals]
        small = [[b"k", b"v"], [b"k", b""], [b"k2", b"a\r\nb"], [b"a b", b"--xyz"], [b"k", b"\x00\xff\xfe"]]
    elif view == "path_components":
        full = [x[1] for x in PC_TOK]
        small = ["a", "/", "%2F", "é", "..", "?"]
    else:
        raise HarnessError(view)
    return full, small


def blocks(thorough: bool):
    """work items: ('existing', view, name) or ('assign', view, prior, n, first-pair index or None)"""
    out = []
    for view in VIEWS:
        for name in EXISTING[view]:
            out.append(("existing", view, name))
        full, small = pair_pools(view, thorough)
        maxlen = 3 if thorough else 2
        if view == "path_components":
            maxlen = 4 if thorough else 3
        for prior in PRIORS[view]:
            out.append(("assign", view, prior, 0, None))
            for n in range(1, maxlen + 1):
                for i in range(len(full)):
                    out.append(("assign", view, prior, n, i))
    return out


def expand(block, thorough: bool):
    if block[0] == "existing":
        yield {"view": block[1], "mode": "existing", "prior": block[2]}
        return
    _, view, prior, n, i = block
    full, small = pair_pools(view, thorough)
    if n == 0:
        lists = [[]]
    elif view == "path_components" or n <= 2:
        # full product up to length 2 (path components: at every length)
        if view == "response_cookies" and n == 2:
            # every Set-Cookie is a header of its own: the second cookie comes from the reduced pool
            lists = [[full[i], s] for s in small] + [[s, full[i]] for s in small]
        else:
            lists = [[full[i]] + list(r) for r in itertools.product(full, repeat=n - 1)]
    else:
        # length 3: one pair from the full pool at each position, the other two from the reduced pool
        lists = []
        for b in small:
            for c in small:
                lists += [[full[i], b, c], [b, full[i], c], [b, c, full[i]]]
    for lst in lists:
        yield {"view": view, "mode": "assign", "prior": prior, "pairs": lst}


_THOROUGH = False


def chunk_fn(chunk):
    t = Tally()
    for block in chunk:
        for c in expand(block, _THOROUGH):
            run_case(c, t)
            t.add("cases_" + c["view"])
    return t


def run(ctx):
    global _THOROUGH
    _THOROUGH = ctx.thorough
    ctx.bounds = {"max_list_length": {"default": 3 if ctx.thorough else 2, "path_components": 4 if ctx.thorough else 3},
                  "lists": "length <= 2: full product of the pool (response cookies at length 2: full x reduced, both orders); "
                           "length 3: one pair from the full pool at each of the three positions, the other two from the reduced pool; "
                           "path components: full product at every length",
                  "pool_sizes": {v: [len(pair_pools(v, ctx.thorough)[0]), len(pair_pools(v, ctx.thorough)[1])] for v in VIEWS},
                  "priors": {v: list(PRIORS[v]) for v in VIEWS},
                  "existing_messages": {v: list(EXISTING[v]) for v in VIEWS}}
    bl = blocks(ctx.thorough)
    ctx.log("%d work blocks" % len(bl))
    par.pmap_tally(chunk_fn, bl, ctx.tally, nchunks=par.NPROC * 6)
    for v in VIEWS:
        ctx.log("  %-18s %d cases" % (v, ctx.tally.extra.get("cases_" + v, 0)))


def replay(case, t: Tally, verbose=False):
    run_case(case, t, verbose=verbose)
