"""Helpers for driving HTTP/1 exchanges through a World (real handler on the virtual loop)."""
from __future__ import annotations

from mitmproxy import http

from vmc.drivers.world import World
from vmc.refs import http1ref

OK_RESPONSE = b"HTTP/1.1 200 OK\r\nContent-Length: 2\r\n\r\nok"


def snap_request(r: http.Request):
    return {
        "method": r.data.method,
        "scheme": r.data.scheme,
        "authority": r.data.authority,
        "host": r.data.host,
        "port": r.data.port,
        "path": r.data.path,
        "version": r.data.http_version,
        "fields": [list(f) for f in r.headers.fields],
        "content": r.raw_content,
        "trailers": [list(f) for f in r.trailers.fields] if r.trailers else [],
        "stream": bool(r.stream),
    }


def snap_response(r: http.Response):
    return {
        "version": r.data.http_version,
        "status": r.data.status_code,
        "reason": r.data.reason,
        "fields": [list(f) for f in r.headers.fields],
        "content": r.raw_content,
        "trailers": [list(f) for f in r.trailers.fields] if r.trailers else [],
        "stream": bool(r.stream),
    }


def http_snap(name, data):
    """snapshot function for World(snap=...): what the HTTP properties talk about"""
    if isinstance(data, http.HTTPFlow):
        d = {"id": data.id, "live": data.live, "error": data.error.msg if data.error else None,
             "killed": bool(data.error and data.error.msg == data.error.KILLED_MESSAGE)}
        if data.request is not None:
            d["request"] = snap_request(data.request)
        if data.response is not None:
            d["response"] = snap_response(data.response)
        return d
    return None


def pump(w: World, responder=None, answered=None, limit=50):
    """let every upstream server answer each complete request it has received so far"""
    if answered is None:
        answered = {}
    responder = responder or (lambda k, msg, end: OK_RESPONSE)
    for _ in range(limit):
        progressed = False
        for e in list(w.servers):
            if e.state != "open" or e.r.eof:
                continue
            msgs, verdict = http1ref.parse_requests(e.w.data)
            k = answered.get(id(e), 0)
            while k < len(msgs):
                out = responder(k, msgs[k], e)
                answered[id(e)] = k = k + 1
                if out is None:
                    continue
                if isinstance(out, (bytes, bytearray)):
                    out = [out]
                for seg in out:
                    if seg == b"":
                        e.r.eof = True
                        w.server_eof(e)
                    else:
                        w.server_send(e, seg)
                progressed = True
        if not progressed:
            break
    return answered


def flows_at(w: World, hook):
    return [s for n, s in w.hooks if n == hook and s is not None]
