"""C33 - Request URL, host, port and authority stay consistent.

Engine E (bounded-exhaustive input enumeration) on the real `mitmproxy.http.Request`:

Part A  every URL of a small grammar (scheme x host x port x path x query x fragment,
        given as str and as bytes) is assigned to every kind of request (HTTP/1 origin-form
        with Host, absolute-form, without Host, HTTP/2 with :authority, with Host only, with
        both, HTTP/3, `Request.make`).
Part B  every edit sequence up to a length bound over {url=, host=, port=, scheme=} with
        colliding values, applied to every request kind; the *last* edit of the sequence is
        judged (every prefix is a case of its own, so nothing is skipped).

The oracle never calls `mitmproxy.net.http.url` or `urllib.parse`: expected components come
from the grammar tokens, read-back URLs / Host headers / authorities are parsed by the small
RFC 3986 splitter below (`split_url`, `split_hostport`) and compared after a normalisation that
only removes what RFC 3986 section 6.2.2/6.2.3 and IDNA call equivalent.
"""
from __future__ import annotations

import ipaddress
import itertools
import re

from mitmproxy.http import Headers, Request

from vmc import par
from vmc.tally import HarnessError, Tally

META = {
    "level": "exploration",
    "technique": "bounded-exhaustive enumeration of URL grammar words and of host/port/url/scheme edit sequences on the real "
    "Request object, judged against token-derived expectations and an independent RFC 3986 splitter/normaliser",
    "claim": "within the stated grammar every URL assignment and every edit sequence was executed on the real setters/getters; "
    "exploration (not model checking) because the space is an input grammar plus short edit words, no state graph is counted",
    "rule": "a case is (request kind, edit sequence); Part A = one url edit spelled from grammar tokens, Part B = a sequence of 2..n edits. "
    "distinct = distinct (kind, edit sequence); non-trivial = the judged (last) edit was executed by the real setter and at least one "
    "clause was evaluated on the result (URLs outside RFC 3986 that the setter rejects with ValueError are counted as rejected, not as non-trivial)",
    "assumptions": [
        "valid URL = RFC 9110 http(s)-URI plus optional fragment: no userinfo, port 1..65535 (or empty), host = DNS name / IDN / IPv4 / bracketed IPv6",
        "equivalence = RFC 3986 6.2.2/6.2.3 only: scheme and host case-folded, IDN compared in A-label form, default port elided, empty path = '/', "
        "hex digits of percent-escapes case-folded, an empty '?'/'#' suffix may be dropped; nothing else is normalised",
        "non-ASCII or space in path/query is not RFC 3986: the setter may reject it with ValueError; if it accepts, the result must be equivalent (UTF-8 percent-encoding counted as equal)",
        "a Host header carrying an IDN host as raw UTF-8 U-label is accepted as naming that host (compared in A-label form)",
        "the follow clauses are judged for host=, port= and url= edits (a url assignment changes host and port); a scheme edit alone is only a set-up step",
        "nothing is demanded when no Host header / authority existed before the edit (the statement only protects existing ones)",
        "CONNECT (authority-form) requests have no URL and are not enumerated",
        "`m.url = x` atomicity on rejection is not part of the statement",
    ],
}

# ---------------------------------------------------------------------------
# independent reference: RFC 3986 splitter and normaliser

# A-labels are tabulated (not computed with the idna codec mitmproxy itself uses)
A_LABEL = {"bücher": "xn--bcher-kva", "例え": "xn--r8jz45g"}

_URL = re.compile(r"^([A-Za-z][A-Za-z0-9+.\-]*)://([^/?#]*)([^?#]*)(?:\?([^#]*))?(?:#(.*))?$", re.S)
_PCT = re.compile(r"%[0-9A-Fa-f]{2}")


def canon_host(text: str):
    """host as spelled in a URL / Host header -> canonical form, or None when it is not a host"""
    if text.startswith("["):
        if not text.endswith("]"):
            return None
        try:
            return "v6:" + ipaddress.IPv6Address(text[1:-1]).compressed
        except ValueError:
            return None
    if not text or ":" in text or "[" in text or "]" in text or "@" in text:
        return None
    if re.fullmatch(r"\d+\.\d+\.\d+\.\d+", text):
        try:
            return "v4:" + str(ipaddress.IPv4Address(text))
        except ValueError:
            return None
    labels = []
    for lab in text.lower().split("."):
        if any(ord(c) > 127 for c in lab):
            if lab not in A_LABEL:
                return None
            lab = A_LABEL[lab]
        labels.append(lab)
    return "n:" + ".".join(labels)


def bare_host(h: str) -> str:
    """a bare host value (as `Request.host` holds it) -> URL spelling"""
    return "[%s]" % h if ":" in h and not h.startswith("[") else h


def split_hostport(text: str):
    """-> (canonical host, port or None) or None"""
    if "@" in text:
        return None
    if text.startswith("["):
        end = text.find("]")
        if end < 0:
            return None
        host, rest = text[: end + 1], text[end + 1:]
        if rest and not rest.startswith(":"):
            return None
        port = rest[1:]
    else:
        host, sep, port = text.partition(":")
        if ":" in port:
            return None
    if port and not port.isdigit():
        return None
    h = canon_host(host)
    if h is None:
        return None
    return h, (int(port) if port else None)


def norm_part(s):
    """percent-escape hex case folded; space and non-ASCII compared in percent-encoded UTF-8 form"""
    if s is None:
        return None
    out = []
    for ch in s:
        if ch == " " or ord(ch) > 127:
            out.append("".join("%%%02X" % b for b in ch.encode("utf-8", "surrogateescape")))
        else:
            out.append(ch)
    return _PCT.sub(lambda m: m.group(0).upper(), "".join(out))


def split_url(u: str):
    """-> (scheme, canon host, effective port, path, query|None, fragment|None) or None"""
    m = _URL.match(u)
    if not m:
        return None
    scheme = m.group(1).lower()
    hp = split_hostport(m.group(2))
    if hp is None:
        return None
    host, port = hp
    if port is None:
        port = {"http": 80, "https": 443}.get(scheme)
    return (scheme, host, port, norm_part(m.group(3)) or "/", norm_part(m.group(4)) or None, norm_part(m.group(5)) or None)


def split_pqf(p: str):
    """request-target style path?query#fragment -> normalised triple"""
    m = re.match(r"^([^?#]*)(?:\?([^#]*))?(?:#(.*))?$", p, re.S)
    return (norm_part(m.group(1)) or "/", norm_part(m.group(2)) or None, norm_part(m.group(3)) or None)


# ---------------------------------------------------------------------------
# grammar (Part A).  Representability rule: only words of
#   ("http"|"https") "://" host [":" [port]] path-abempty ["?" query] ["#" fragment]
# host = DNS name (labels of [A-Za-z0-9_-]{1,63}, total <= 253), U-label IDN, IPv4, "[" IPv6 "]"; port 1..65535.

SCHEMES = [("http", "http", 80), ("https", "https", 443), ("HTTP", "http", 80)]

LONG = ".".join(["a" * 63, "b" * 63, "c" * 63, "d" * 61])
assert len(LONG) == 253
# (host_kind, spelling, canonical)
HOSTS = [
    ("name", "example.com", "n:example.com"),
    ("name", "localhost", "n:localhost"),
    ("name", "a-1.b-2.example", "n:a-1.b-2.example"),
    ("upper-case", "EXAMPLE.Com", "n:example.com"),
    ("punycode-idn", "xn--bcher-kva.example", "n:xn--bcher-kva.example"),
    ("unicode-idn", "bücher.example", "n:xn--bcher-kva.example"),
    ("unicode-idn", "BÜCHER.example", "n:xn--bcher-kva.example"),
    ("unicode-idn", "例え.jp", "n:xn--r8jz45g.jp"),
    ("ipv4", "127.0.0.1", "v4:127.0.0.1"),
    ("ipv6-literal", "[::1]", "v6:::1"),
    ("ipv6-literal", "[2001:db8::1]", "v6:2001:db8::1"),
    ("ipv6-literal", "[2001:DB8:0:0:0:0:0:1]", "v6:2001:db8::1"),
    ("ipv6-literal", "[::ffff:1.2.3.4]", "v6:::ffff:102:304"),
    ("long-253", LONG, "n:" + LONG),
    ("trailing-dot", "example.com.", "n:example.com."),
    ("underscore", "_srv.example", "n:_srv.example"),
    # the host every prior request (see build()) already points at: with port 80 the assignment keeps the destination
    # and changes at most scheme and path
    ("same-as-current", "old.example", "n:old.example"),
    # RFC 3986 reg-names made of digits: every label is a legal [A-Za-z0-9_-]{1,63} label, so they are assignable and
    # read back verbatim (the reference does not reinterpret short/decimal IPv4 spellings: same text = same host)
    ("numeric-last-label", "printer.0", "n:printer.0"),
    ("numeric-last-label", "127.1", "n:127.1"),
    ("numeric-last-label", "2130706433", "n:2130706433"),
    ("numeric-last-label", "a.b.c.1", "n:a.b.c.1"),
    ("digit-labels", "1a.2-3.4b.example", "n:1a.2-3.4b.example"),
    ("digit-labels", "9.example", "n:9.example"),
    ("digit-labels", "0x7f.1z", "n:0x7f.1z"),
]
QUICK_HOSTS = [0, 3, 4, 5, 8, 9, 10, 13, 14, 16, 17, 18, 19, 21]


def ports_for(default, other):
    # (port_kind, spelling, effective port)
    return [
        ("omitted", "", default),
        ("own-default", ":%d" % default, default),
        ("other-default", ":%d" % other, other),
        ("other", ":8080", 8080),
        ("max", ":65535", 65535),
        ("empty", ":", default),
        ("leading-zero", ":0%d" % default, default),
        ("one", ":1", 1),
    ]


# (path_kind, spelling, strict)   strict=False: outside RFC 3986, ValueError is an allowed answer
PATHS = [
    ("empty", "", True),
    ("root", "/", True),
    ("plain", "/a/b.html", True),
    ("pct", "/a%20b/%2F", True),
    ("pct", "/%c3%a4", True),
    ("dslash", "//a", True),
    ("dots", "/a/../b/.", True),
    ("params", "/a;p=1/b;q", True),
    ("delims", "/a:b@c", True),
    ("space", "/a b", False),
    ("non-ascii", "/ä", False),
]
QUERIES = [
    ("none", None, True),
    ("empty", "", True),
    ("plain", "q=1&q=2", True),
    ("pct", "q=%C3%A4+x", True),
    ("delims", "u=a@b:8/x?y", True),
    ("semicolon", "a=1;b", True),
    ("non-ascii", "q=ä", False),
]
FRAGS = [("none", None), ("some", "f"), ("delims", "a@b:1/?x")]

# quick tier: the combinations named in DESIGN plus one per branch of url.parse (leading-slash fix-up,
# params, fragment, netloc delimiting by '?'/'#')
QUICK_PQF = [
    (0, 0, 0), (1, 0, 0), (2, 0, 0), (3, 0, 0), (4, 0, 0), (5, 0, 0), (6, 0, 0), (7, 0, 0), (8, 0, 0), (9, 0, 0), (10, 0, 0),
    (0, 2, 0), (0, 4, 0), (0, 0, 2), (0, 1, 0), (1, 1, 0), (1, 6, 0), (1, 3, 0), (1, 5, 0), (1, 0, 1), (7, 2, 1), (2, 4, 2), (1, 2, 2),
]

KINDS = ["h1-origin-host", "h1-absolute", "h1-nohost", "h2-authority", "h2-hostonly", "h2-both", "h3-authority", "make"]
BYTES_FORM_KINDS = ["h1-origin-host", "make"]  # URL given as bytes: only on these kinds
QUICK_A_KINDS = ["h1-origin-host", "h1-absolute", "h2-authority", "h2-hostonly", "make"]  # Part A, quick tier


def build(kind: str) -> Request:
    ver, auth, hdrs = {
        "h1-origin-host": (b"HTTP/1.1", b"", [(b"Host", b"old.example")]),
        "h1-absolute": (b"HTTP/1.1", b"old.example", [(b"Host", b"old.example")]),
        "h1-nohost": (b"HTTP/1.0", b"", []),
        "h2-authority": (b"HTTP/2.0", b"old.example", []),
        "h2-hostonly": (b"HTTP/2.0", b"", [(b"host", b"old.example")]),
        "h2-both": (b"HTTP/2.0", b"old.example", [(b"Host", b"old.example")]),
        "h3-authority": (b"HTTP/3", b"old.example", []),
    }[kind]
    return Request("old.example", 80, b"GET", b"http", auth, b"/old?x=1", ver, Headers(hdrs + [(b"Accept", b"*/*")]), b"", None, 0.0, 0.0)


def spell_url(e):
    """('url', si, hi, pi, pai, qi, fi, form) -> (URL text, expectation)"""
    _, si, hi, pi, pai, qi, fi, form = e
    sch, csch, dflt = SCHEMES[si]
    hk, hsp, hcanon = HOSTS[hi]
    pk, psp, peff = ports_for(dflt, 443 if dflt == 80 else 80)[pi]
    pak, path, s1 = PATHS[pai]
    qk, query, s2 = QUERIES[qi]
    fk, frag = FRAGS[fi]
    u = "%s://%s%s%s" % (sch, hsp, psp, path)
    if query is not None:
        u += "?" + query
    if frag is not None:
        u += "#" + frag
    exp = (csch, hcanon, peff, norm_part(path) or "/", norm_part(query) or None, norm_part(frag) or None)
    pq_kind = pak if pak not in ("empty", "root", "plain") or qk == "none" else "q-" + qk
    feats = {"host_kind": hk, "port_kind": pk, "path_kind": pq_kind if fk == "none" or pq_kind not in ("empty", "root", "plain") else "frag"}
    return u, exp, feats, (s1 and s2)


# ---------------------------------------------------------------------------
# edit alphabet for sequences (Part B); url edits are indices into the Part A grammar
B_URLS = [
    ("url", 0, 0, 0, 1, 0, 0, "str"),  # http://example.com/
    ("url", 1, 0, 3, 2, 2, 0, "str"),  # https://example.com:8080/a/b.html?q=1&q=2
    ("url", 0, 10, 3, 2, 0, 0, "str"),  # http://[2001:db8::1]:8080/a/b.html
    ("url", 1, 4, 0, 1, 0, 0, "str"),  # https://xn--bcher-kva.example/
    ("url", 0, 0, 2, 1, 0, 0, "bytes"),  # http://example.com:443/
    # colliding with the ones above: same host and port, only the scheme (and with it which port is elided) differs
    ("url", 1, 0, 2, 1, 0, 0, "str"),  # https://example.com:80/   (destination of the first URL, other scheme)
    ("url", 1, 0, 0, 1, 0, 0, "str"),  # https://example.com/      (destination of http://example.com:443/, other scheme)
]
B_HOSTS = ["new.example", "NEW.example", "::1", "bücher.example", b"xn--bcher-kva.example", "127.0.0.1", "old.example"]
# set-up steps (never judged themselves, like a scheme edit): the Host header / authority / host_header is edited by
# hand to a value that collides with the host and port edits, so that one of them may already name the next destination
# while the other does not
B_MANUAL = [(op, v) for op in ("set-host-header", "set-authority", "set-host_header") for v in ("new.example", "example.com:8080")]
B_EDITS = (B_URLS + [("host", h) for h in B_HOSTS] + [("port", p) for p in (80, 443, 8080)] + [("scheme", s) for s in ("http", "https")]
           + B_MANUAL)
JUDGED_OPS = ("url", "host", "port")


def host_kind_of(h: str) -> str:
    if ":" in h:
        return "ipv6-literal"
    if re.fullmatch(r"[\d.]+", h):
        return "ipv4"
    if any(ord(c) > 127 for c in h):
        return "unicode-idn"
    if "xn--" in h.lower():
        return "punycode-idn"
    if h != h.lower():
        return "upper-case"
    return "name"


def snapshot(r: Request):
    d = r.data
    return (d.scheme, d.host, d.port, d.path, d.authority, tuple(d.headers.fields), d.http_version, d.method, d.content)


def do_edit(r: Request, e):
    op = e[0]
    if op == "url":
        u = spell_url(e)[0]
        r.url = u.encode("utf-8") if e[7] == "bytes" else u
    elif op == "host":
        r.host = e[1]
    elif op == "port":
        r.port = e[1]
    elif op == "scheme":
        r.scheme = e[1]
    elif op == "set-host-header":
        r.headers["Host"] = e[1]
    elif op == "set-authority":
        r.authority = e[1]
    elif op == "set-host_header":
        r.host_header = e[1]
    else:
        raise HarnessError("unknown edit %r" % (e,))


def try_(f):
    try:
        return f(), None
    except KeyboardInterrupt:
        raise
    except BaseException as ex:  # noqa: an exception out of mitmproxy code is an observation
        return None, ex


def run_case(case, t: Tally, verbose=False):
    kind, edits = case[0], [tuple(x) for x in case[1]]
    last = edits[-1]
    say = print if verbose else (lambda *a: None)

    if kind == "make":
        # Request.make(method, url): only a single url edit makes sense
        if len(edits) != 1 or last[0] != "url":
            raise HarnessError("kind 'make' takes exactly one url edit")
        r = None
    else:
        r = build(kind)
        for e in edits[:-1]:
            _, ex = try_(lambda: do_edit(r, e))  # judged as the last edit of the shorter case
            say("  prefix", e, "->", "raised %r" % ex if ex else snapshot(r)[:5])

    op = last[0]
    strict = True
    if op == "url":
        u, exp, feats, strict = spell_url(last)
        want = split_url(u)
        if want != exp:
            raise HarnessError("reference splitter disagrees with the grammar on %r: %r vs %r" % (u, want, exp))
        feats = dict(feats, edit="url")
        dest_host, dest_port = exp[1], exp[2]
    elif op == "host":
        hv = last[1]
        hs = hv.decode("ascii") if isinstance(hv, bytes) else hv
        feats = {"edit": "host", "host_kind": host_kind_of(hs)}
        dest_host, dest_port = canon_host(bare_host(hs)), r.data.port
    elif op == "port":
        feats = {"edit": "port", "host_kind": host_kind_of(r.data.host)}
        dest_host, dest_port = canon_host(bare_host(r.data.host)), last[1]
    else:
        raise HarnessError("a case must end in a url/host/port edit (scheme and manual header edits are set-up steps)")
    if dest_host is None:
        raise HarnessError("destination host of %r is outside the reference" % (case,))

    if r is None:
        pre_hosts, pre_auth = [], b""
        r, ex = try_(lambda: Request.make("GET", u.encode("utf-8") if last[7] == "bytes" else u))
    else:
        pre_hosts, pre_auth = r.data.headers.get_all("Host"), r.data.authority
        _, ex = try_(lambda: do_edit(r, last))
    say("  judged edit", last, "->", "raised %r" % ex if ex else snapshot(r)[:6])

    main_clause = "url_roundtrip" if op == "url" else "host_header_follows"
    if ex is not None:
        if not strict and isinstance(ex, ValueError):
            t.add("rejected_non_rfc3986_url")
            t.outcome(("rejected", type(ex).__name__))
            t.case(None, nontrivial=False)
            return
        t.bad(main_clause, dict(feats, how="raises", exc=type(ex).__name__), case, "no exception", repr(ex))
        t.outcome(("raises", type(ex).__name__, feats.get("host_kind")))
        t.case(None, nontrivial=True, key=case)
        return

    # ---- sentence 1: read back an equivalent URL; components consistent; re-assignment is a no-op
    if op == "url":
        u1, ex = try_(lambda: r.url)
        got = split_url(u1) if isinstance(u1, str) else None
        if ex is not None:
            t.bad("url_roundtrip", dict(feats, how="raises", exc=type(ex).__name__), case, u, repr(ex))
        elif got is None:
            t.bad("url_roundtrip", dict(feats, how="unparseable"), case, u, u1)
        else:
            diff = [n for n, a, b in zip(("scheme", "host", "port", "path", "query", "fragment"), exp, got) if a != b]
            t.judge("url_roundtrip", not diff, dict(feats, how=diff[0] if diff else ""), case, [u, exp], [u1, got])
        # scheme, host, port, path read back consistently with it
        comp, ex = try_(lambda: (r.scheme, r.host, r.port, r.path))
        if ex is not None:
            t.bad("components_consistent", dict(feats, how="raises", exc=type(ex).__name__), case, None, repr(ex))
        else:
            sc, ho, po, pa = comp
            obs = (sc, canon_host(bare_host(ho)) if isinstance(ho, str) else None, po) + (split_pqf(pa) if isinstance(pa, str) else (None,) * 3)
            diff = [n for n, a, b in zip(("scheme", "host", "port", "path", "query", "fragment"), exp, obs) if a != b]
            t.judge("components_consistent", not diff, dict(feats, how=diff[0] if diff else ""), case, exp, [comp[:4], obs])
        if isinstance(u1, str):
            before = snapshot(r)
            _, ex = try_(lambda: setattr(r, "url", u1))
            if ex is not None:
                t.bad("idempotent", dict(feats, how="raises", exc=type(ex).__name__), case, "re-assigning %r changes nothing" % u1, repr(ex))
            else:
                after = snapshot(r)
                u2, ex2 = try_(lambda: r.url)
                t.judge("idempotent", after == before and u2 == u1, dict(feats, how="changed"), case, [u1, before], [u2, after])
            t.outcome((u1, comp))

    # ---- sentence 2: existing Host header / authority point at the new destination
    scheme_now = r.data.scheme.decode("ascii", "replace")
    dflt = {"http": 80, "https": 443}.get(scheme_now)
    dest = (dest_host, dest_port)

    def points_at(raw: bytes):
        hp = split_hostport(raw.decode("utf-8", "surrogateescape"))
        if hp is None:
            return None
        return hp[0], (hp[1] if hp[1] is not None else dflt)

    judged = False
    if pre_hosts:
        judged = True
        now = [v for k, v in r.data.headers.fields if k.lower() == b"host"]
        obs = [points_at(v) for v in now]
        ok = bool(now) and all(o == dest for o in obs)
        how = "" if ok else ("removed" if not now else "unparseable" if None in obs else "host" if any(o[0] != dest_host for o in obs) else "port")
        t.judge("host_header_follows", ok, dict(feats, how=how), case, dest, [now, obs])
    if pre_auth:
        judged = True
        now = r.data.authority
        obs = points_at(now) if now else None
        how = "" if obs == dest else ("removed" if not now else "unparseable" if obs is None else "host" if obs[0] != dest_host else "port")
        t.judge("authority_follows", obs == dest, dict(feats, how=how), case, dest, [now, obs])
    if pre_hosts or pre_auth:
        # mitmproxy's own reading of the header it has just written
        res, ex = try_(lambda: (r.pretty_host, r.pretty_url, r.host_header))
        if ex is not None:
            t.bad("pretty_follows", dict(feats, how="raises", exc=type(ex).__name__), case, None, repr(ex))
        else:
            ph, pu, hh = res
            want_url = (scheme_now, dest_host, dest_port) + split_pqf(r.data.path.decode("utf-8", "surrogateescape"))
            got_h = canon_host(bare_host(ph)) if isinstance(ph, str) else None
            got_u = split_url(pu) if isinstance(pu, str) else None
            how = "" if (got_h == dest_host and got_u == want_url) else ("host" if got_h != dest_host else "unparseable" if got_u is None else "url")
            t.judge("pretty_follows", not how, dict(feats, how=how), case, [dest_host, want_url], [ph, pu, hh])
    t.outcome((r.data.host, r.data.port, tuple(r.data.headers.get_all("Host")), r.data.authority))
    t.case(case if len(edits) == 2 else None, nontrivial=(op == "url" or judged), key=case)


# ---------------------------------------------------------------------------


def part_a_blocks(thorough: bool):
    """work items for the pool: one block = all ports x forms x request kinds of one (path, query, fragment, scheme, host)"""
    hosts = range(len(HOSTS)) if thorough else QUICK_HOSTS
    if thorough:
        pqf = list(itertools.product(range(len(PATHS)), range(len(QUERIES)), range(len(FRAGS))))
    else:
        pqf = QUICK_PQF
    return [("A" if thorough else "a", pai, qi, fi, si, hi) for pai, qi, fi in pqf for si in range(len(SCHEMES)) for hi in hosts]


def expand_a(block):
    tag, pai, qi, fi, si, hi = block
    for pi in range(len(ports_for(80, 443))):
        for form in ("str", "bytes"):
            e = ("url", si, hi, pi, pai, qi, fi, form)
            for kind in (KINDS if tag == "A" else QUICK_A_KINDS):
                # the form only matters where the setter converts its argument, before any request state is read
                if form == "str" or kind in BYTES_FORM_KINDS:
                    yield (kind, [e])


ENDERS = [e for e in B_EDITS if e[0] in JUDGED_OPS]
B_KINDS = [k for k in KINDS if k != "make"]


def part_b_blocks(maxlen: int):
    """one block = one prefix of edits (as indices into B_EDITS); the worker appends every judged last edit x request kind.
    The empty prefix gives the single host/port edits (single url edits are Part A)."""
    out = [("B",)]
    for n in range(1, maxlen):
        out.extend(("B",) + p for p in itertools.product(range(len(B_EDITS)), repeat=n))
    return out


def expand_b(block):
    prefix = [B_EDITS[i] for i in block[1:]]
    for last in ENDERS:
        if not prefix and last[0] == "url":
            continue
        for kind in B_KINDS:
            yield (kind, prefix + [last])


def chunk_fn(chunk):
    t = Tally()
    for block in chunk:
        for c in (expand_b(block) if block[0] == "B" else expand_a(block)):
            run_case(c, t)
            t.add("part_b_cases" if block[0] == "B" else "part_a_cases")
    return t


def run(ctx):
    seqlen = ctx.pick(2, 3)
    ctx.bounds = {
        "schemes": [s[0] for s in SCHEMES],
        "hosts": [HOSTS[i][1][:40] for i in (range(len(HOSTS)) if ctx.thorough else QUICK_HOSTS)],
        "ports": [p[0] for p in ports_for(80, 443)],
        "path_query_fragment": "full product %dx%dx%d" % (len(PATHS), len(QUERIES), len(FRAGS)) if ctx.thorough else "%d listed combinations" % len(QUICK_PQF),
        "forms": {"str": "all request kinds", "bytes": BYTES_FORM_KINDS},
        "request_kinds": KINDS,
        "request_kinds_for_single_url_assignment": KINDS if ctx.thorough else QUICK_A_KINDS,
        "edit_alphabet": [repr(e) for e in B_EDITS],
        "max_edit_sequence": seqlen,
    }
    a = part_a_blocks(ctx.thorough)
    b = part_b_blocks(seqlen)
    ctx.log("part A: %d blocks of url assignments; part B: %d prefixes, edit sequences of length <= %d" % (len(a), len(b), seqlen))
    # one pool for both parts (forking workers is the dominant fixed cost on a busy machine)
    par.pmap_tally(chunk_fn, a + b, ctx.tally, nchunks=par.NPROC * 6)
    ctx.info["part_a_cases"] = ctx.tally.extra.get("part_a_cases", 0)
    ctx.info["part_b_cases"] = ctx.tally.extra.get("part_b_cases", 0)
    ctx.log("part A: %(part_a_cases)d cases, part B: %(part_b_cases)d cases" % ctx.info)


def replay(case, t: Tally, verbose=False):
    if verbose and case[1] and case[1][-1][0] == "url":
        print("  url under test:", spell_url(tuple(case[1][-1]))[0])
    run_case(case, t, verbose=verbose)
