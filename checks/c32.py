"""C32 - message text round trip for every content type and charset.

Engine E: every string that is a sequence of <= n tokens (one token per branch of
`infer_content_encoding` / `set_text` / `get_text`: ASCII, latin-1 range, BMP, astral, a
surrogate-escaped byte, U+FEFF, the latin-1 spellings of the UTF-8/16/32 byte order marks,
the three in-body charset declarations) crossed with every content type family and every
charset parameter form, assigned as `message.text` and read back on the real `Message`.
"""
from __future__ import annotations

import codecs
import gzip
import itertools

from mitmproxy import http
from mitmproxy.net import encoding as enc_mod

from vmc import par
from vmc.tally import Tally

META = {
    "level": "exploration",
    "technique": "bounded-exhaustive enumeration of (token string x content type x charset parameter x content-encoding "
                 "x message kind) on the real Message.set_text/get_text",
    "claim": "inside the stated grammar every assigned text reads back identically and the declared charset decodes the "
             "body to the text; exploration level because the property quantifies over inputs only",
    "rule": "a case is (string, content-type family, charset parameter, content-encoding, message kind); non-trivial = the "
            "string is not plain ASCII, or the charset is not ASCII compatible (utf-16/utf-32); distinct by that tuple "
            "(strings that two token sequences spell identically are enumerated once)",
    "assumptions": [
        "strings are sequences of <= n tokens of the stated alphabet; a defect needing a character class or declaration "
        "form outside the alphabet is not covered",
        "charset_updated_when_needed is judged only when a charset label is declared after the assignment; the label is "
        "resolved with Python's codec registry, gb2312/gbk read as gb18030 (WHATWG treats them as one decoder), quoted "
        "labels unquoted; lone surrogates in the text stand for undecodable bytes (PEP 383) and are compared through the "
        "surrogateescape handler",
        "zlib is trusted for the gzip content-encoding dimension (C31 checks codings)",
    ],
}

META_DECL = "<meta charset=latin-1>"
XML_DECL = '<?xml version="1.0" encoding="latin-1"?>'
CSS_DECL = '@charset "latin-1";'

# (token, name) - canonical simplest-first order
TOKENS = [
    ("a", "ascii"),
    ("é", "latin1"),                # é: representable in latin-1, not ascii
    ("€", "bmp"),                   # €: not in latin-1, not in GB2312, in GB18030
    ("中", "cjk"),                   # 中: in GB2312
    ("\U0001F600", "astral"),
    ("\udcff", "surrogate"),             # surrogate-escaped byte 0xFF
    ("﻿", "U+FEFF"),
    ("ÿþ", "latin1(FF FE)"),   # UTF-16LE BOM when written as latin-1
    ("þÿ", "latin1(FE FF)"),   # UTF-16BE BOM
    ("ï»¿", "latin1(EF BB BF)"),  # UTF-8 BOM
    ("\x00\x00", "NUL NUL"),             # completes the two UTF-32 BOM spellings with the tokens above
    (META_DECL, "html-meta"),
    (XML_DECL, "xml-decl"),
    (CSS_DECL, "css-charset"),
]

# content type (None = no header) -> family used for features
CTYPES = [
    (None, "none"),
    ("text/plain", "plain"),
    ("text/html", "html"),
    ("application/xhtml+xml", "html"),
    ("application/xml", "xml"),
    ("text/css", "css"),
    ("application/json", "json"),
    ("application/javascript", "javascript"),
    ("image/png", "other"),
    ("garbage", "unparseable"),
]
# charset parameter forms (None = no parameter)
CHARSETS = [None, "utf-8", "latin-1", "ascii", "utf-16", "utf-32", "gb2312", "bogus", "", '"utf-8"']

BOM_LOOKALIKES = ("ÿþ", "þÿ", "ï»¿", "\x00\x00þÿ")


def strings(maxtok):
    seen = set()
    out = []
    for n in range(0, maxtok + 1):
        for tup in itertools.product([t for t, _ in TOKENS], repeat=n):
            s = "".join(tup)
            if s not in seen:
                seen.add(s)
                out.append(s)
    return out


def gen_cases(maxtok, variants):
    ntok = {}
    for n in range(maxtok, -1, -1):  # fewest tokens that spell the string
        for tup in itertools.product([t for t, _ in TOKENS], repeat=n):
            ntok["".join(tup)] = n
    for s in strings(maxtok):
        for ct, _ in CTYPES:
            for cs in CHARSETS:
                if ct is None and cs is not None:
                    continue
                for kind, ce, vmax in variants:
                    if ntok[s] <= vmax:
                        yield [s, ct, cs, ce, kind]


def _tune_malloc():
    """harness-side speed-up only (gzip variant): keep zlib's ~270 kB per-call state on the heap instead of
    mmap/munmap-ing it on every call (page faults are very expensive in forked workers on this machine)"""
    try:
        import ctypes

        libc = ctypes.CDLL("libc.so.6")
        libc.mallopt(-3, 1 << 30)  # M_MMAP_THRESHOLD
        libc.mallopt(-1, 1 << 30)  # M_TRIM_THRESHOLD
    except Exception:
        pass


def body_bom(body):
    """which byte order mark the produced (content-decoded) body starts with"""
    if not isinstance(body, bytes):
        return "none"
    if body.startswith((b"\x00\x00\xfe\xff", b"\xff\xfe\x00\x00")):
        return "utf-32"
    if body.startswith((b"\xfe\xff", b"\xff\xfe")):
        return "utf-16"
    if body.startswith(b"\xef\xbb\xbf"):
        return "utf-8"
    return "none"


def features(s, ct, cs, ce, body):
    """trigger classes of a case; `decl`, `surrogate`, `charset`, `ct`, `ce` name the grammar alternatives chosen,
    `body_bom` is read off the body the assignment produced"""
    fam = dict(CTYPES)[ct]
    no_header_charset = cs in (None, "")
    decl = "none"
    if no_header_charset:
        if fam == "html" and META_DECL in s:
            decl = "html-meta"
        elif fam == "xml" and XML_DECL in s:
            decl = "xml-decl"
        elif fam == "css" and s.startswith(CSS_DECL):
            decl = "css-charset"
    if s.startswith("﻿"):
        lead = "U+FEFF"
    elif s.startswith(BOM_LOOKALIKES):
        lead = "bom-lookalike"  # latin-1 characters whose latin-1 bytes spell a byte order mark
    else:
        lead = "none"
    return {
        "ct": fam,
        "charset": "none" if cs is None else (cs or "empty"),
        "decl": decl,
        "text_lead": lead,
        "body_bom": body_bom(body),
        "surrogate": any(0xD800 <= ord(c) <= 0xDFFF for c in s),
        "ce": ce or "none",
    }


def declared_charset(header):
    """independent reading of the charset parameter of a Content-Type value (RFC 9110 s8.3.1: parameter names are
    case-insensitive, the value may be a quoted-string)"""
    if header is None:
        return None
    media = header.split(";")[0].strip()
    if media.count("/") != 1 or not all(media.split("/")):
        return None  # not a media type: its parameters declare nothing
    for part in header.split(";")[1:]:
        if "=" not in part:
            continue
        k, v = part.split("=", 1)
        if k.strip().lower() == "charset":
            v = v.strip()
            if len(v) >= 2 and v[0] == v[-1] == '"':
                v = v[1:-1]
            return v
    return None


def make_message(kind, ct, cs, ce):
    hdrs = []
    if ct is not None:
        val = ct if cs is None else "%s; charset=%s" % (ct, cs)
        hdrs.append((b"content-type", val.encode()))
    if ce:
        hdrs.append((b"content-encoding", ce.encode()))
    # one real object per kind is re-used (construction runs ~60 us of type checks): everything set_text/get_text
    # can read - body, headers, trailers - is overwritten here, so no state survives from the previous case
    m = _TEMPLATES.get(kind)
    if m is None:
        if kind == "response":
            m = http.Response(b"HTTP/1.1", 200, b"OK", http.Headers(), b"", None, 0.0, 0.0)
        else:
            m = http.Request("h", 80, b"POST", b"http", b"h", b"/", b"HTTP/1.1", http.Headers(), b"", None, 0.0, 0.0)
        _TEMPLATES[kind] = m
    m.data.headers = http.Headers(hdrs)
    m.data.content = b""
    m.data.trailers = None
    return m


_TEMPLATES: dict = {}


def show(x):
    if isinstance(x, str):
        return x.encode("unicode_escape").decode("ascii")
    return x


def one(case, t: Tally, sample=False, verbose=False):
    s, ct, cs, ce, kind = case
    enc_mod._cache = enc_mod.CachedDecode(None, None, None, None)
    m = make_message(kind, ct, cs, ce)
    feats = None
    # --- clause text_roundtrip: m.text = s; m.text == s, no exception
    err = got = None
    assigned = True
    try:
        m.text = s
    except KeyboardInterrupt:
        raise
    except BaseException as e:
        err = "set_text raised %s: %s" % (type(e).__name__, e)
        assigned = False
    if err is None:
        try:
            got = m.text
        except KeyboardInterrupt:
            raise
        except BaseException as e:
            err = "get_text raised %s: %s" % (type(e).__name__, str(e)[:120])
    hdr_after = m.headers.get("content-type")
    # the body as a recipient sees it (content coding removed with the stdlib decoder, not with mitmproxy's)
    body = m.raw_content
    if ce == "gzip" and assigned:
        try:
            body = gzip.decompress(body)
        except Exception as e:
            body = None
    if verbose:
        print("  text=%s content-type=%r charset=%r ce=%r kind=%s" % (show(s), ct, cs, ce, kind))
        print("  after assignment: content-type=%r raw_content=%r" % (hdr_after, m.raw_content))
        print("  read back: %s" % (show(got) if err is None else err))
    if err is None and got == s and type(got) is str:
        t.ok("text_roundtrip")
    else:
        feats = features(s, ct, cs, ce, body)
        t.bad("text_roundtrip", feats, case, show(s),
              {"read_back": show(got) if err is None else err, "content_type_after": hdr_after, "raw": m.raw_content})
    # --- clause charset_updated_when_needed: the charset declared after the assignment decodes the body to s
    label = declared_charset(hdr_after)
    if not assigned:
        pass  # nothing was assigned: already reported by text_roundtrip
    elif not label:
        t.add("charset_clause_skipped_no_label_declared")
    else:
        name = "gb18030" if label.lower() in ("gb2312", "gbk") else label
        try:
            codecs.lookup(name)
            known = True
        except LookupError:
            known = False
        if not known:
            t.add("charset_clause_skipped_unknown_label_left_declared")
        else:
            try:
                dec = body.decode(name, "surrogateescape")
            except KeyboardInterrupt:
                raise
            except BaseException as e:
                dec = "%s: %s" % (type(e).__name__, str(e)[:120])
            if dec == s:
                t.ok("charset_updated_when_needed")
            else:
                feats = feats or features(s, ct, cs, ce, body)
                t.bad("charset_updated_when_needed", feats, case, show(s),
                      {"declared": label, "body": m.raw_content, "body_decoded_with_declared": show(dec)})
            if verbose:
                print("  body decoded with declared charset %r: %s" % (label, show(dec)))
    t.outcome([hdr_after, err is None and got == s])
    nontrivial = (not s.isascii()) or cs in ("utf-16", "utf-32")
    t.case({"text": show(s), "content_type": ct, "charset": cs, "ce": ce, "kind": kind} if sample else None,
           nontrivial=nontrivial, key="\x1f".join([show(s), str(ct), str(cs), str(ce), kind]))


def chunk_fn(chunk):
    t = Tally()
    for i, case in enumerate(chunk):
        one(case, t, sample=(i == len(chunk) // 2))
    return t


def run(ctx):
    _tune_malloc()
    maxtok = ctx.pick(2, 3)
    # (message kind, content-encoding header present while the text is assigned and read, max tokens for this variant)
    variants = ctx.pick([["response", None, 2], ["response", "gzip", 1]],
                        [["response", None, 3], ["response", "gzip", 3], ["request", None, 3]])
    ctx.bounds = {
        "max_tokens": maxtok,
        "tokens": [n for _, n in TOKENS],
        "content_types": [c for c, _ in CTYPES],
        "charset_parameters": CHARSETS,
        "message_kind_content_encoding_max_tokens": variants,
    }
    cases = list(gen_cases(maxtok, variants))
    ctx.info["distinct_strings"] = len(strings(maxtok))
    ctx.log("%d cases (%d strings)" % (len(cases), ctx.info["distinct_strings"]))
    # quick is ~5 s of CPU: run it in-process (forking the pool costs more than that on a loaded machine);
    # thorough is dealt to 8 workers, one chunk each
    if ctx.thorough:
        par.pmap_tally(chunk_fn, cases, ctx.tally, nchunks=8, nproc=8)
    else:
        par.pmap_tally(chunk_fn, cases, ctx.tally, nproc=1)


def replay(case, t: Tally, verbose=False):
    one(list(case), t, verbose=verbose)
