"""Addon test contexts for the explorer checks (C39, C43, C52, C54).

`new_context(*addons)` is `mitmproxy.test.taddons.context(*addons)` - the same object
the repository's own addon tests use - made cheap and leak-free enough to be built once
per explored execution:

* every context adopts one per-process asyncio loop instead of creating (and leaking) a
  selector + socketpair per execution.  The loop is never run by the checks: none of the
  driven addon entry points is a coroutine (`run(coro)` is there for the ones that are);
* the root-logger handler that every `Master` installs (`LegacyLogEvents`) is removed
  again, otherwise thousands of dead masters would be called on every `logging.warning`;
* `activate(tctx)` points the process-global `mitmproxy.ctx` at the context's master.
  `Master.__init__` does that implicitly for the *last* master built; the explorer keeps
  two systems alive at a time, so every `apply` activates its own context first.
"""
from __future__ import annotations

import asyncio
import logging
import os

import mitmproxy.ctx
from mitmproxy.test import taddons

_LOOP: dict[int, asyncio.AbstractEventLoop] = {}


def loop() -> asyncio.AbstractEventLoop:
    pid = os.getpid()
    lp = _LOOP.get(pid)
    if lp is None or lp.is_closed():
        _LOOP.clear()
        lp = _LOOP[pid] = asyncio.new_event_loop()
    return lp


def new_context(*addons, loadcore: bool = False) -> taddons.context:
    lp = loop()
    # taddons.context() adopts "the running loop" when there is one
    asyncio._set_running_loop(lp)
    try:
        tctx = taddons.context(*addons, loadcore=loadcore)
    finally:
        asyncio._set_running_loop(None)
    tctx.master._legacy_log_events.uninstall()
    return tctx


def activate(tctx: taddons.context) -> None:
    mitmproxy.ctx.master = tctx.master
    mitmproxy.ctx.options = tctx.master.options
    mitmproxy.ctx.log = tctx.master.log


def run(coro):
    """run a coroutine to completion on the per-process loop (deterministic: nothing else is scheduled on it)"""
    return loop().run_until_complete(coro)


def memoize_filter_parse() -> None:
    """`flowfilter.parse` is a pure function of its string (the compiled filter is stateless) but costs
    about 1 ms of pyparsing per call; the explorers re-apply the same two or three expressions
    millions of times while replaying histories, so the harness process memoizes it."""
    import functools

    from mitmproxy import flowfilter

    if not hasattr(flowfilter.parse, "cache_info"):
        flowfilter.parse = functools.lru_cache(maxsize=64)(flowfilter.parse)


def quiet_logging() -> None:
    """addons log through `logging`; the checks judge state, not log text"""
    logging.disable(logging.CRITICAL)
