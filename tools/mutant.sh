#!/bin/bash
# tools/mutant.sh <patch.diff> <ID> [tier]  - run a check against a scratch worktree of /repo
# with the patch applied (never touches /repo's working tree). Prints the check's exit code.
set -u
patch="$(readlink -f "$1")"; id="$2"; tier="${3:-quick}"
wt="/dev/shm/vmc-mut-$$"
git -C /repo worktree add -q --detach "$wt" HEAD || exit 3
trap 'git -C /repo worktree remove --force "$wt" >/dev/null 2>&1; git -C /repo worktree prune' EXIT
# the worktree starts from HEAD; bring over uncommitted changes of /repo's working tree too
git -C /repo diff HEAD | git -C "$wt" apply --allow-empty 2>/dev/null
git -C "$wt" apply "$patch" || { echo "patch does not apply"; exit 3; }
if [ -n "${MUT_PYTEST:-}" ]; then
  (cd "$wt" && env -u MITMPROXY_VERIF PYTHONPATH="$wt" /venv/bin/python -m pytest -q -p no:cacheprovider -x -q $MUT_PYTEST 2>&1 | sed 's/\x1b\[[0-9;]*m//g' | grep -E "passed|failed|error" | tail -2 | sed 's/^/repo-tests: /')
fi
cd "$(dirname "$0")/.."
VERIF_REPO="$wt" ./check "$id" --tier "$tier" > "/dev/shm/vmc-mut-$$.log" 2>&1
rc=$?
grep -E "under test|^VIOLATION|^KNOWN-FINDING|^HARNESS-ERROR|^\[C[0-9]+\] tier" "/dev/shm/vmc-mut-$$.log" | head -${MUT_LINES:-8}
rm -f "/dev/shm/vmc-mut-$$.log"
echo "exit=$rc"
exit $rc
