"""Deterministic work distribution over a fork()ed process pool.

`pmap(fn, items)` deals `items` into chunks, runs `fn(chunk) -> Tally` (or any
picklable value) in worker processes and returns the results in chunk order, so the
merged result does not depend on worker timing.  Workers are forked once, never
per execution.  A worker that dies (native crash) surfaces as HarnessError naming the
chunk, so the caller can re-run it case by case.
"""
from __future__ import annotations

import concurrent.futures as cf
import multiprocessing as mp
import os

from vmc.tally import HarnessError, Tally

NPROC = int(os.environ.get("VERIF_NPROC", "0")) or min(16, os.cpu_count() or 1)

_FN = None


def _call(args):
    idx, chunk = args
    return idx, _FN(chunk)


def chunks_of(items, nchunks):
    items = list(items)
    nchunks = max(1, min(nchunks, len(items)))
    out = [[] for _ in range(nchunks)]
    for i, it in enumerate(items):
        out[i % nchunks].append(it)
    return out


def pmap(fn, items, nchunks=None, nproc=None):
    """returns [fn(chunk) for chunk in round-robin chunks of items], in chunk order"""
    global _FN
    nproc = nproc or NPROC
    items = list(items)
    if not items:
        return []
    if nchunks is None:
        nchunks = nproc * 4
    parts = chunks_of(items, nchunks)
    if nproc <= 1 or len(parts) == 1:
        return [fn(p) for p in parts]
    _FN = fn  # inherited by fork
    ctx = mp.get_context("fork")
    results = [None] * len(parts)
    try:
        with cf.ProcessPoolExecutor(max_workers=min(nproc, len(parts)), mp_context=ctx) as ex:
            for idx, res in ex.map(_call, list(enumerate(parts))):
                results[idx] = res
    except cf.process.BrokenProcessPool as e:
        raise HarnessError("a worker process died (native crash?): %s" % e)
    finally:
        _FN = None
    return results


def pmap_tally(fn, items, tally: Tally, nchunks=None, nproc=None):
    """fn(chunk) -> Tally; merged into `tally` in chunk order"""
    for r in pmap(fn, items, nchunks=nchunks, nproc=nproc):
        tally.merge(r)
    return tally
