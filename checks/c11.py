"""C11 - intercepted flows are held until resumed, killed flows are never forwarded.

Engine V+X on the real stack: real ProxyConnectionHandler (hooks run through the real
`handle_hook` -> `flow.wait_for_resume()`), real layer stacks for HTTP/1, HTTP/2 (h2
client, two streams), WebSocket, TCP, UDP and DNS.  The addon policy is the effect of the
real Intercept addon (`flow.intercept()` inside the hook that carries the chosen message)
or an addon that kills inside the hook; the user actions are what console/web do:
`flow.resume()`, `flow.kill()` (guarded by `flow.killable`), edit-then-resume.

Every message carries a unique marker.  Deviation-bounded DFS over the orders of "next
peer segment arrives" (only causally possible ones: a response is released when its
request has arrived upstream) and "user resumes / kills / edits+resumes held message i".
The destination side is read by independent decoders (http1ref, wsproto, hyper-h2,
dnsref) and searched for the markers.
"""
from __future__ import annotations

import struct

import h2.config
import h2.connection
import h2.events
import wsproto
import wsproto.connection
import wsproto.events
import wsproto.frame_protocol

from mitmproxy import flow as mflow
from mitmproxy import http
from mitmproxy.proxy import layers
from mitmproxy.proxy.layers.http import HTTPMode

from vmc.drivers import mbfs
from vmc.drivers.eworld import EWorld
from vmc.refs import dnsref
from vmc.refs import http1ref
from vmc.tally import HarnessError, Tally

META = {
    "level": "model_checking",
    "technique": "deviation-bounded DFS over arrival orders and user actions (resume / kill / edit+resume) on the real ConnectionHandler and layer stacks on a virtual event loop; marker-based monitor on the bytes decoded at the destination",
    "claim": "for every protocol scenario, choice of intercepted / killed messages and schedule within the deviation bound: nothing of a held message reaches its destination, a resumed message arrives exactly once (edited if edited), a killed message never arrives and its flow ends with an error, and with an HTTP/2 stream held the other stream completes",
    "rule": "an execution is (scenario, per-message addon policy, eager, choice sequence); distinct = distinct tuple; non-trivial = at least one message intercepted or killed",
    "assumptions": [
        "upstream connects succeed immediately; sockets do not fail (faults are C03/C09/C29's subject)",
        "the destination is judged on what an independent decoder extracts from the bytes written to the mock socket",
        "resume_forwards_once demands arrival only when no flow on the same connection was killed (an HTTP/1 kill closes the connection); 'never twice' is demanded always",
        "others_progress is only demanded for HTTP/2 (DNS queries on one connection are serialised by the layer; reported as a note)",
    ],
}

KILLED = mflow.Error.KILLED_MESSAGE


def mk(i):
    return b"MSG%d" % i


def ed(i):
    return b"EDT%d" % i


# ------------------------------------------------------------------------------------ scenarios
IDLE_S = 1000.0  # longer than tcp_timeout (600 s) and UDP_TIMEOUT (20 s)


class Scenario:
    """one connection's worth of messages.  msgs[i] = (direction 'c2s'|'s2c', hook name)."""

    proto = "?"
    mode = "regular"
    transport = "tcp"
    msgs: list = []
    multiplexed = False

    def __init__(self):
        self.delivered = 0

    def layer_factory(self):
        return None

    # script: list of (source 'c'|'s', key); bytes come from segment()
    def script(self):
        raise NotImplementedError

    def enabled(self, w, step):
        return True

    def segment(self, w, step) -> list:
        """-> list of (End, bytes) to deliver for this step"""
        raise NotImplementedError

    def which(self, name, data):
        """index of the message this hook invocation carries, or None"""
        raise NotImplementedError

    def edit(self, i, data):
        raise NotImplementedError

    def flow_of(self, data):
        return data

    def dest(self, w, direction) -> bytes:
        """everything the destination of `direction` has received, decoded as far as markers need it"""
        raise NotImplementedError

    def server(self, w):
        for e in w.servers:
            if e.state == "open" and not e.w.closed and not e.r.eof:
                return e
        return None


class H1(Scenario):
    proto = "http1"
    mode = "regular"
    msgs = [("c2s", "request"), ("s2c", "response"), ("c2s", "request"), ("s2c", "response")]

    def __init__(self, pipelined=False, stream=False, post=False, h2up=False):
        super().__init__()
        self.pipelined = pipelined
        self.stream = stream  # the addon streams response bodies; the origin then answers chunked
        self.post = post  # the requests carry a body
        self.h2up = h2up  # the origin speaks HTTP/2 (the harness' server_connect policy stands in for TLS ALPN)
        self.origin = H2Origin() if h2up else None
        self.answered = {}

    def req(self, i):
        if self.post:
            return b"POST http://example.com/" + mk(i) + b" HTTP/1.1\r\nHost: example.com\r\nContent-Length: 8\r\n\r\npayload" + b"%d" % i
        return b"GET http://example.com/" + mk(i) + b" HTTP/1.1\r\nHost: example.com\r\n\r\n"

    def forwarded(self, w, i):
        """the message as the destination's independent decoder sees it: {"head": path or status, "body", "complete"}"""
        if i in (0, 2):
            if self.h2up:
                self.origin.pump(w)
                for e, sid, r in self.origin.requests():
                    if mk(i) in r["path"] or ed(i) in r["path"]:
                        return {"head": r["path"], "body": r["body"], "complete": r["ended"]}
                return None
            for e in w.servers:
                got, _ = http1ref.parse_requests(e.w.data)
                for m in got:
                    if mk(i) in m["start"][1] or ed(i) in m["start"][1]:
                        return {"head": m["start"][1], "body": m["body"], "complete": True}
            return None
        methods = [b"POST" if self.post else b"GET"] * 2
        got, _ = http1ref.parse_responses(w.client.w.data, methods, eof=w.client.w.closed)
        k = 0 if i == 1 else 1
        if k < len(got):
            return {"head": got[k]["start"][1], "body": got[k]["body"], "complete": True}
        return None

    def toggle_body(self, i, data):
        toggle_body(i, data)

    def resp(self, i):
        return http_response(i, self.stream)

    def token(self, w, i):
        """what must not change while message i is held / after it was killed: HTTP/1 is sequential, so no byte at all
        may be written to the destination side"""
        d = self.msgs[i][0]
        return sum(len(e.w.data) for e in w.servers) if d == "c2s" else len(w.client.w.data)

    def replace(self, i, data):
        replace_message(i, data)

    def script(self):
        if self.pipelined:
            return [("c", (0, 2)), ("s", 1), ("s", 3)]
        return [("c", (0,)), ("s", 1), ("c", (2,)), ("s", 3)]

    def target(self, w, i):
        """the upstream connection whose next unanswered request is the one response i answers (possibly edited)"""
        if self.h2up:
            self.origin.pump(w)
            for e, sid, r in self.origin.requests():
                if r["ended"] and not r["answered"] and not e.r.eof and not e.w.closed and (mk(i - 1) in r["path"] or ed(i - 1) in r["path"]):
                    return e, sid
            return None
        for e in w.servers:
            if e.state != "open" or e.r.eof or e.w.closed:
                continue
            got, _ = http1ref.parse_requests(e.w.data)
            n = self.answered.get(id(e), 0)
            if len(got) > n and (mk(i - 1) in got[n]["start"][1] or ed(i - 1) in got[n]["start"][1]):
                return e
        return None

    def enabled(self, w, step):
        src, key = step
        if src == "c":
            return True
        return self.target(w, key) is not None

    def segment(self, w, step):
        src, key = step
        if src == "c":
            return [(w.client, b"".join(self.req(i) for i in key))]
        if self.h2up:
            e, sid = self.target(w, key)
            return [(e, self.origin.respond(e, sid, mk(key)))]
        e = self.target(w, key)
        self.answered[id(e)] = self.answered.get(id(e), 0) + 1
        return [(e, self.resp(key))]

    def which(self, name, data):
        if not isinstance(data, http.HTTPFlow):
            return None
        if name == "request":
            for i in (0, 2):
                if mk(i) in data.request.data.path:
                    return i
        if name == "response" and data.response is not None:
            for i in (1, 3):
                if mk(i) in (data.response.raw_content or b""):
                    return i
            # a streamed body is not kept on the flow: the response belongs to the request it answers
            for i in (1, 3):
                if mk(i - 1) in data.request.data.path or ed(i - 1) in data.request.data.path:
                    return i
        return None

    def edit(self, i, data):
        if i in (0, 2):
            data.request.path = "/" + ed(i).decode()
        else:
            data.response.content = ed(i)

    def dest(self, w, direction):
        if direction == "c2s":
            if self.h2up:
                self.origin.pump(w)
                return b"|".join(r["path"] + b" " + r["body"] for e, sid, r in self.origin.requests())
            return b"".join(e.w.data for e in w.servers)
        return w.client.w.data


class H2Origin:
    """independent HTTP/2 origin server(s) (hyper-h2, server side): reads what mitmproxy wrote to each upstream socket"""

    def __init__(self):
        self.conns = {}  # id(End) -> state
        self.order = []

    def pump(self, w):
        for e in w.servers:
            if e.state != "open":
                continue
            st = self.conns.get(id(e))
            if st is None:
                c = h2.connection.H2Connection(h2.config.H2Configuration(client_side=False, header_encoding="utf-8"))
                c.initiate_connection()
                st = self.conns[id(e)] = {"end": e, "conn": c, "fed": 0, "streams": {}, "error": None}
                self.order.append(id(e))
            d = e.w.data
            if len(d) > st["fed"] and st["error"] is None:
                try:
                    evs = st["conn"].receive_data(d[st["fed"]:])
                except Exception as ex:  # a protocol error of mitmproxy's HTTP/2 client: nothing more is decoded
                    st["error"] = repr(ex)
                    evs = []
                st["fed"] = len(d)
                for ev in evs:
                    if isinstance(ev, h2.events.RequestReceived):
                        hd = dict(ev.headers)
                        st["streams"][ev.stream_id] = {"path": hd.get(":path", "").encode(), "method": hd.get(":method", ""), "body": b"", "ended": False, "reset": False, "answered": False}
                    elif isinstance(ev, h2.events.DataReceived):
                        st["streams"][ev.stream_id]["body"] += ev.data
                        st["conn"].acknowledge_received_data(ev.flow_controlled_length, ev.stream_id)
                    elif isinstance(ev, h2.events.StreamEnded):
                        st["streams"][ev.stream_id]["ended"] = True
                    elif isinstance(ev, h2.events.StreamReset):
                        if ev.stream_id in st["streams"]:
                            st["streams"][ev.stream_id]["reset"] = True

    def requests(self):
        out = []
        for k in self.order:
            st = self.conns[k]
            for sid in sorted(st["streams"]):
                out.append((st["end"], sid, st["streams"][sid]))
        return out

    def respond(self, e, sid, body):
        st = self.conns[id(e)]
        st["streams"][sid]["answered"] = True
        st["conn"].send_headers(sid, [(":status", "200"), ("content-length", str(len(body)))])
        st["conn"].send_data(sid, body, end_stream=True)
        return st["conn"].data_to_send()


def toggle_body(i, data):
    """the user's edit gives a bodiless message a body / removes the body of a message that had one (and marks the
    message as edited: path for requests, a header for responses)"""
    if i in (0, 2):
        data.request.path = "/" + ed(i).decode()
        data.request.content = b"" if data.request.raw_content else b"added-by-user-%d" % i
    else:
        data.response.headers["x-edited"] = ed(i).decode()
        data.response.content = b"" if data.response.raw_content else b"added-by-user-%d" % i


def http_response(i, chunked):
    if chunked:
        return b"HTTP/1.1 200 OK\r\nTransfer-Encoding: chunked\r\n\r\n4\r\n" + mk(i) + b"\r\n0\r\n\r\n"
    return b"HTTP/1.1 200 OK\r\nContent-Length: 4\r\n\r\n" + mk(i)


def replace_message(i, data):
    """edit by replacing the whole message object (as `flow.response = Response.make(...)` in an addon or the
    web UI's PUT do) instead of editing it in place"""
    if i in (0, 2):
        data.request = http.Request.make("GET", "http://example.com/" + ed(i).decode())
    else:
        data.response = http.Response.make(200, ed(i))


class Raw(Scenario):
    """TCP or UDP relay: one flow for the whole connection, one hook per message"""

    msgs = [("c2s", "x_message"), ("s2c", "x_message"), ("c2s", "x_message")]

    def __init__(self, proto):
        super().__init__()
        self.proto = proto
        self.mode = "reverse:%s://10.0.0.1:53" % proto
        self.transport = proto
        self.msgs = [(d, "%s_message" % proto) for d, _ in Raw.msgs]

    def script(self):
        return [("c", 0), ("s", 1), ("c", 2)]

    def enabled(self, w, step):
        return step[0] == "c" or self.server(w) is not None

    def segment(self, w, step):
        src, i = step
        return [(w.client if src == "c" else self.server(w), mk(i))]

    def which(self, name, data):
        if name != "%s_message" % self.proto:
            return None
        c = data.messages[-1].content
        for i in range(3):
            if mk(i) in c:
                return i
        return None

    def edit(self, i, data):
        data.messages[-1].content = ed(i)

    def dest(self, w, direction):
        if direction == "c2s":
            return b"".join(e.w.data for e in w.servers)
        return w.client.w.data


class Dns(Scenario):
    proto = "dns"
    mode = "reverse:dns://10.0.0.1:53"
    transport = "udp"
    msgs = [("c2s", "dns_request"), ("s2c", "dns_response"), ("c2s", "dns_request"), ("s2c", "dns_response")]

    def __init__(self):
        super().__init__()
        self.answered = 0

    def script(self):
        return [("c", 0), ("s", 1), ("c", 2), ("s", 3)]

    def query(self, i):
        return dnsref.simple_message(0x1000 + i, dnsref.flags_word(rd=1), questions=[([mk(i), b"example"], 16, 1)])

    def answer(self, i):
        q = i - 1
        name = [mk(q), b"example"]
        return dnsref.simple_message(0x1000 + q, dnsref.flags_word(qr=1, rd=1, ra=1), questions=[(name, 16, 1)],
                                     answers=[(name, 16, 1, 60, bytes([4]) + mk(i))])

    def enabled(self, w, step):
        if step[0] == "c":
            return True
        e = self.server(w)
        # the upstream only answers a query it has received
        want = struct.pack("!H", 0x1000 + step[1] - 1)
        return e is not None and any(d[:2] == want for d in e.w.out)

    def segment(self, w, step):
        src, i = step
        if src == "c":
            return [(w.client, self.query(i))]
        return [(self.server(w), self.answer(i))]

    def which(self, name, data):
        if name == "dns_request":
            for i in (0, 2):
                if mk(i).decode() in data.request.questions[0].name:
                    return i
        if name == "dns_response" and data.response is not None and data.response.answers:
            for i in (1, 3):
                if mk(i) in data.response.answers[0].data:
                    return i
        return None

    def edit(self, i, data):
        if i in (0, 2):
            data.request.questions[0].name = ed(i).decode() + ".example"
        else:
            data.response.answers[0].data = bytes([4]) + ed(i)

    def dest(self, w, direction):
        # datagrams as the destination got them; names and TXT strings are stored uncompressed / literally
        if direction == "c2s":
            return b"|".join(d for e in w.servers for d in e.w.out)
        return b"|".join(w.client.w.out)


class Ws(Scenario):
    proto = "websocket"
    mode = "regular"
    msgs = [("c2s", "websocket_message"), ("s2c", "websocket_message"), ("c2s", "websocket_message")]

    def __init__(self):
        super().__init__()
        self.cws = wsproto.WSConnection(wsproto.ConnectionType.CLIENT)
        self.sws = wsproto.WSConnection(wsproto.ConnectionType.SERVER)
        self.s_fed = 0
        self.c_fed = 0
        self.s_got = []
        self.c_got = []
        self.accepted = False

    def script(self):
        return [("c", "hs"), ("s", "hs"), ("c", 0), ("s", 1), ("c", 2)]

    def pump(self, w):
        """let the wsproto peers read what mitmproxy wrote to them"""
        e = w.servers[0] if w.servers else None
        if e is not None:
            d = e.w.data
            if len(d) > self.s_fed:
                self.sws.receive_data(d[self.s_fed:])
                self.s_fed = len(d)
                for ev in self.sws.events():
                    if isinstance(ev, wsproto.events.Request):
                        self.s_got.append(("request", ev.target))
                    elif isinstance(ev, wsproto.events.Message):
                        self.s_got.append(("msg", ev.data.encode() if isinstance(ev.data, str) else bytes(ev.data)))
        d = w.client.w.data
        if self.accepted_by_proxy(d) and len(d) > self.c_fed:
            self.cws.receive_data(d[self.c_fed:])
            self.c_fed = len(d)
            for ev in self.cws.events():
                if isinstance(ev, wsproto.events.AcceptConnection):
                    self.c_got.append(("accept", b""))
                elif isinstance(ev, wsproto.events.Message):
                    self.c_got.append(("msg", ev.data.encode() if isinstance(ev.data, str) else bytes(ev.data)))

    def accepted_by_proxy(self, d):
        return True

    def enabled(self, w, step):
        self.pump(w)
        src, key = step
        if src == "c":
            return key == "hs" or any(k == "accept" for k, _ in self.c_got)
        if key == "hs":
            return any(k == "request" for k, _ in self.s_got)
        return self.accepted and self.server(w) is not None

    def segment(self, w, step):
        src, key = step
        if src == "c":
            if key == "hs":
                return [(w.client, self.cws.send(wsproto.events.Request(host="example.com", target="http://example.com/ws")))]
            return [(w.client, self.cws.send(wsproto.events.TextMessage(data=mk(key).decode())))]
        if key == "hs":
            self.accepted = True
            return [(self.server(w), self.sws.send(wsproto.events.AcceptConnection()))]
        return [(self.server(w), self.sws.send(wsproto.events.TextMessage(data=mk(key).decode())))]

    def which(self, name, data):
        if name != "websocket_message":
            return None
        c = data.websocket.messages[-1].content
        for i in range(3):
            if mk(i) in c:
                return i
        return None

    def edit(self, i, data):
        data.websocket.messages[-1].content = ed(i)

    def dest(self, w, direction):
        self.pump(w)
        got = self.s_got if direction == "c2s" else self.c_got
        return b"|".join(d for k, d in got if k == "msg")


class H2(Scenario):
    """HTTP/2 client (hyper-h2, prior knowledge: the layer is told client.alpn = h2), HTTP/1 upstream; two streams"""

    proto = "http2"
    mode = "reverse:http://example.com:80/"
    multiplexed = True
    # stream 1: request 0 / response 1; stream 3: request 2 / response 3
    msgs = [("c2s", "request"), ("s2c", "response"), ("c2s", "request"), ("s2c", "response")]

    def __init__(self, stream=False):
        super().__init__()
        self.stream = stream
        self.c = h2.connection.H2Connection(h2.config.H2Configuration(client_side=True, header_encoding="utf-8"))
        self.c.initiate_connection()
        self.preface_sent = False
        self.c_fed = 0
        self.bodies = {}  # stream id -> bytes
        self.ended = set()
        self.resets = set()
        self.answered = {}  # id(End) -> n

    def layer_factory(self):
        def make(ctx):
            ctx.client.alpn = b"h2"
            ctx.server.address = ("example.com", 80)
            return layers.HttpLayer(ctx, HTTPMode.transparent)

        return make

    def script(self):
        return [("c", 0), ("c", 2), ("s", 1), ("s", 3)]

    def sid(self, i):
        return 1 if i in (0, 1) else 3

    def pump(self, w):
        d = w.client.w.data
        if len(d) > self.c_fed:
            evs = self.c.receive_data(d[self.c_fed:])
            self.c_fed = len(d)
            for ev in evs:
                if isinstance(ev, h2.events.DataReceived):
                    self.bodies[ev.stream_id] = self.bodies.get(ev.stream_id, b"") + ev.data
                    self.c.acknowledge_received_data(ev.flow_controlled_length, ev.stream_id)
                elif isinstance(ev, h2.events.StreamEnded):
                    self.ended.add(ev.stream_id)
                elif isinstance(ev, h2.events.StreamReset):
                    self.resets.add(ev.stream_id)
            # SETTINGS acks / window updates the h2 client owes are sent along with its next request

    def target(self, w, i):
        """the upstream connection that carries request i-1 (HTTP/1 upstream: one request per connection at a time)"""
        want = b"/" + mk(i - 1)
        alt = b"/" + ed(i - 1)
        for e in w.servers:
            if e.state != "open" or e.r.eof or e.w.closed:
                continue
            got, _ = http1ref.parse_requests(e.w.data)
            n = self.answered.get(id(e), 0)
            if len(got) > n and (want in got[n]["start"][1] or alt in got[n]["start"][1]):
                return e
        return None

    def enabled(self, w, step):
        self.pump(w)
        if step[0] == "c":
            return True
        return self.target(w, step[1]) is not None

    def segment(self, w, step):
        src, i = step
        if src == "c":
            self.c.send_headers(self.sid(i), [(":method", "GET"), (":scheme", "http"), (":authority", "example.com"), (":path", "/" + mk(i).decode())], end_stream=True)
            return [(w.client, self.c.data_to_send())]
        e = self.target(w, i)
        self.answered[id(e)] = self.answered.get(id(e), 0) + 1
        return [(e, http_response(i, self.stream))]

    which = H1.which
    edit = H1.edit
    replace = H1.replace
    toggle_body = H1.toggle_body

    def forwarded(self, w, i):
        if i in (0, 2):
            for e in w.servers:
                got, _ = http1ref.parse_requests(e.w.data)
                for m in got:
                    if mk(i) in m["start"][1] or ed(i) in m["start"][1]:
                        return {"head": m["start"][1], "body": m["body"], "complete": True}
            return None
        self.pump(w)
        sid = self.sid(i)
        if sid not in self.bodies and sid not in self.ended:
            return None
        return {"head": None, "body": self.bodies.get(sid, b""), "complete": sid in self.ended and sid not in self.resets}

    def token(self, w, i):
        """streams are independent: what the client has of *this* stream (body bytes, END_STREAM seen) must not change
        while its response is held / after it was killed; requests are judged by their markers only"""
        if self.msgs[i][0] == "c2s":
            return None
        self.pump(w)
        sid = self.sid(i)
        return [len(self.bodies.get(sid, b"")), sid in self.ended]

    def dest(self, w, direction):
        self.pump(w)
        if direction == "c2s":
            return b"".join(e.w.data for e in w.servers)
        return b"|".join(self.bodies.get(s, b"") for s in (1, 3))

    def stream_complete(self, w, sid):
        self.pump(w)
        return sid in self.ended and sid not in self.resets


SCENARIOS = {
    "h1": lambda: H1(False),
    "h1-pipelined": lambda: H1(True),
    "tcp": lambda: Raw("tcp"),
    "udp": lambda: Raw("udp"),
    "dns": lambda: Dns(),
    "ws": lambda: Ws(),
    "h2": lambda: H2(),
    # the addon streams response bodies (flow.response.stream = True in responseheaders); chunked origin responses
    "h1-stream": lambda: H1(False, stream=True),
    "h2-stream": lambda: H2(stream=True),
    # requests with a body; an HTTP/2 origin (end-of-stream flags instead of Content-Length framing)
    "h1-post": lambda: H1(post=True),
    "h1-h2up": lambda: H1(h2up=True),
    "h1-post-h2up": lambda: H1(post=True, h2up=True),
}
BODY_EDIT = ("h1", "h2", "h1-post", "h1-h2up", "h1-post-h2up")  # scenarios in which the edit may add / remove a body
HTTP_LIKE = ("http1", "http2")


# ------------------------------------------------------------------------------------ execution
class Exec:
    def __init__(self, scen, pol, eager=True, edit="inplace"):
        """pol: tuple over the scenario's messages of '-' (pass), 'i' (intercept in the hook), 'k' (addon kills in the hook);
        edit: the user's edit changes the message in place, or replaces the whole request / response object"""
        self.scen, self.pol, self.eager, self.edit = scen, tuple(pol), eager, edit

    def run(self, prefix, t: Tally, verbose=False):
        sc = SCENARIOS[self.scen]()
        streaming = bool(getattr(sc, "stream", False))
        held = []  # [msg index, flow, state, destination token when it was intercepted]
        log = []  # what happened to each message: (index, "held" | "resumed" | "edited" | "killed" | "killed_in_hook")
        pend = {}  # id(flow) -> number of handle_hook calls in progress (observation wrapper)
        kill_tokens = {}  # msg index -> destination token at the moment of the kill

        def token(i):
            return sc.token(w, i) if hasattr(sc, "token") else None

        expect = {}  # msg index -> the message as the user left it when resuming (what must be forwarded, in full)

        def snapshot(i, f):
            if not hasattr(sc, "forwarded"):
                return None
            if i in (0, 2):
                return {"head": f.request.data.path, "body": f.request.raw_content or b""}
            return {"head": b"%d" % f.response.status_code, "body": f.response.raw_content or b""}

        def policy(name, data, world):
            if streaming and name == "responseheaders" and isinstance(data, http.HTTPFlow):
                data.response.stream = True
            if getattr(sc, "h2up", False) and name == "server_connect":
                data.server.alpn = b"h2"  # what the TLS handshake with an HTTP/2 origin leaves on the connection
            i = sc.which(name, data)
            if i is None:
                return
            p = self.pol[i]
            if p == "i":
                data.intercept()  # the Intercept addon's effect
                held.append([i, data, "held", token(i)])
                log.append((i, "held"))
            elif p == "k" and data.killable:
                kill_tokens[i] = token(i)
                data.kill()
                log.append((i, "killed_in_hook"))

        w = EWorld(mode=sc.mode, transport=sc.transport, policy=policy, auto_connect=True, eager=self.eager, layer_factory=sc.layer_factory())
        orig = w.handler.handle_hook

        async def counting_handle_hook(hook):
            (data,) = hook.args()
            k = id(data)
            pend[k] = pend.get(k, 0) + 1
            try:
                await orig(hook)
            finally:
                pend[k] -= 1

        w.handler.handle_hook = counting_handle_hook
        script = sc.script()
        done_steps = [False] * len(script)
        choices, widths = [], []
        trace = []
        feats0 = {"proto": sc.proto}
        case = {"scen": self.scen, "pol": "".join(self.pol), "eager": self.eager, "edit": self.edit, "choices": None}
        results = {"ends_flow": [], "kill_tokens": kill_tokens, "expect": expect}

        def body_already_sent(i):
            # a streamed response body has been forwarded before the response hook runs: only completing the
            # message (terminating chunk / END_STREAM / trailers) is still ahead
            return streaming and sc.msgs[i][0] == "s2c"

        def choose(n):
            i = prefix[len(choices)] if len(choices) < len(prefix) else 0
            if i >= n:
                raise HarnessError("choice out of range while replaying %r" % (prefix,))
            choices.append(i)
            widths.append(n)
            return i

        def deliverable():
            out = []
            for src in ("c", "s"):
                for k, st in enumerate(script):
                    if st[0] == src and not done_steps[k]:
                        if (src == "s" or not w.client.w.closed) and sc.enabled(w, st):
                            out.append(k)
                        break  # each peer sends in order
            return sorted(out)

        idled = []
        try:
            w.start()
            w.settle()
            for _ in range(60):
                live_held = [h for h in held if h[2] == "held"]
                acts = []
                if live_held:
                    acts.append(("resume", 0))
                dl = deliverable()
                for k in dl:
                    acts.append(("deliver", k))
                for j, h in enumerate(live_held[:2]):
                    if j:
                        acts.append(("resume", j))
                    if h[1].killable:  # what console / web check before offering kill
                        acts.append(("kill", j))
                    if not body_already_sent(h[0]):
                        acts.append(("edit", j))
                if live_held and not idled and dl:
                    acts.append(("idle",))  # nothing happens for longer than the idle timeout while a message is held
                if not acts:
                    break
                a = acts[choose(len(acts))] if len(acts) > 1 else acts[0]
                trace.append(a)
                if a[0] == "idle":
                    idled.append(1)
                    w.loop.advance(IDLE_S)
                    w.settle()
                    t.judge("held_until_resumed_across_idle_timeout", not w.client.w.closed and not w.done,
                            dict(feats0, by="idle"), dict(case, choices=list(choices)),
                            "the connection of an intercepted flow is not closed for inactivity", {"client_closed": w.client.w.closed, "handler_done": w.done})
                elif a[0] == "deliver":
                    done_steps[a[1]] = True
                    for end, data in sc.segment(w, script[a[1]]):
                        w.raw(end.send, data)
                    w.settle()
                else:
                    h = live_held[a[1]]
                    f = h[1]
                    if a[0] == "resume":
                        h[2] = "resumed"
                        if not body_already_sent(h[0]):
                            expect[h[0]] = snapshot(h[0], f)
                        w.act(f.resume)
                    elif a[0] == "edit":
                        h[2] = "edited"
                        if self.edit == "replace":
                            sc.replace(h[0], f)
                        elif self.edit == "body":
                            sc.toggle_body(h[0], f)
                        else:
                            sc.edit(h[0], f)
                        expect[h[0]] = snapshot(h[0], f)
                        w.act(f.resume)
                    else:
                        h[2] = "killed"
                        kill_tokens[h[0]] = token(h[0])
                        w.act(f.kill)
                        results["ends_flow"].append((h[0], pend.get(id(f), 0) == 0, f))
                    log.append((h[0], h[2]))
                t.transitions += 1
                # invariant: nothing of a held message is at its destination
                for h in held:
                    if h[2] == "held":
                        d, hook = sc.msgs[h[0]]
                        got = sc.dest(w, d)
                        if not body_already_sent(h[0]):
                            t.judge("nothing_sent_while_intercepted", mk(h[0]) not in got and ed(h[0]) not in got,
                                    dict(feats0, dir=d, hook=hook), dict(case, choices=list(choices)), "marker of the held message absent at the destination", got[-200:])
                        if h[3] is not None:
                            now = token(h[0])
                            t.judge("nothing_sent_while_intercepted", now == h[3], dict(feats0, dir=d, hook=hook, streamed=streaming, by="progress"), dict(case, choices=list(choices)),
                                    "the destination has received nothing more for this flow since it was intercepted", {"then": h[3], "now": now, "tail": got[-80:]})
                # multiplexed protocols: with one stream held, the other stream's exchange completes
                if sc.multiplexed:
                    self.check_progress(w, sc, held, script, done_steps, dict(case, choices=list(choices)), t)
                t.state([self.scen, [x for x in log], sorted(k for k, d in enumerate(done_steps) if d), len(w.client.w.data), [len(e.w.data) for e in w.servers]])
            else:
                raise HarnessError("schedule does not terminate: %r" % (trace,))
            closed = w.close_out_eps()
            case["choices"] = list(choices)
            self.judge(w, sc, held, log, results, closed, pend, trace, case, t, verbose)
        finally:
            w.dispose()
        return choices, widths, None

    def check_progress(self, w, sc, held, script, done_steps, case, t):
        """multiplexed: while a message of stream X is held, stream Y (not touched by the addon policy) gets as far as
        the environment has let it: its delivered request is upstream, its delivered response is complete at the client"""
        for h in held:
            if h[2] != "held":
                continue
            ym = (2, 3) if sc.sid(h[0]) == 1 else (0, 1)
            if self.pol[ym[0]] != "-" or self.pol[ym[1]] != "-":
                continue
            req_step, resp_step = script.index(("c", ym[0])), script.index(("s", ym[1]))
            if not done_steps[req_step]:
                continue
            f = {"proto": sc.proto, "held_hook": sc.msgs[h[0]][1]}
            if not done_steps[resp_step]:
                t.judge("others_progress", sc.target(w, ym[1]) is not None, dict(f, stage="request_forwarded"), case,
                        "the other stream's request has reached the upstream server", sc.dest(w, "c2s")[-160:])
            else:
                ok = sc.stream_complete(w, sc.sid(ym[1])) and mk(ym[1]) in sc.dest(w, "s2c")
                t.judge("others_progress", ok, dict(f, stage="response_delivered"), case, "the other stream's response is complete at the client", sc.dest(w, "s2c")[-160:])

    # ------------------------------------------------------------------ oracle
    def judge(self, w, sc, held, log, results, closed, pend, trace, case, t: Tally, verbose):
        feats0 = {"proto": sc.proto}
        nontrivial = any(p != "-" for p in self.pol) and bool(log)
        t.case(case if (len(t.samples) < 2 and len(log) > 1) else None, nontrivial=nontrivial, key=case)
        fate = {}
        for i, what in log:
            if what != "held":
                fate[i] = what
        any_kill = any(v in ("killed", "killed_in_hook") for v in fate.values())
        names = [n for n, _ in w.hooks]
        outcome = []
        for i, (d, hook) in enumerate(sc.msgs):
            got = sc.dest(w, d)
            n_orig, n_edit = got.count(mk(i)), got.count(ed(i))
            f = dict(feats0, dir=d, hook=hook)
            what = fate.get(i)
            outcome.append((i, what, n_orig, n_edit))
            # never twice, whatever happened
            t.judge("never_forwarded_twice", n_orig + n_edit <= 1, f, case, "at most one copy at the destination", {"orig": n_orig, "edited": n_edit})
            if what == "resumed":
                if not any_kill:
                    t.judge("resume_forwards_once", n_orig == 1 and n_edit == 0, dict(f, edited=False, count=min(n_orig, 2)), case, "exactly one copy of the resumed message", {"orig": n_orig, "edited": n_edit})
            want = results["expect"].get(i)
            if what in ("resumed", "edited") and want is not None and not any_kill:
                # the whole message as the user left it (start line target / status and the complete body) is what arrives
                fw = sc.forwarded(w, i)
                same = fw is not None and fw["complete"] and fw["body"] == want["body"] and (fw["head"] is None or fw["head"] == want["head"])
                t.judge("resume_forwards_edited_only" if what == "edited" else "resume_forwards_once", same,
                        dict(f, edited=what == "edited", by="full_message", edit=self.edit if what == "edited" else "none"), case,
                        "the destination decodes exactly the message on the flow at resume time", {"forwarded": fw, "on_flow": want})
            if what == "edited" and self.edit == "body" and d == "s2c":
                pass  # the edited response carries its marker in a header only; judged by the full-message comparison above
            elif what == "edited":
                t.judge("resume_forwards_edited_only", n_orig == 0, dict(f, edited=True), case, "nothing of the unedited message", {"orig": n_orig, "edited": n_edit})
                if not any_kill:
                    t.judge("resume_forwards_once", n_edit == 1, dict(f, edited=True, count=min(n_edit, 2)), case, "exactly one copy of the edited message", {"orig": n_orig, "edited": n_edit})
            elif what in ("killed", "killed_in_hook"):
                kind = "user_on_intercepted" if what == "killed" else "addon_in_hook"
                streamed = bool(getattr(sc, "stream", False)) and d == "s2c"
                if not streamed:  # (a streamed body was forwarded before the response hook, i.e. before the kill)
                    t.judge("kill_sends_nothing_further", n_orig + n_edit == 0, dict(f, kill=kind), case, "nothing of the killed message at the destination", {"orig": n_orig, "edited": n_edit, "tail": got[-120:]})
                then = results["kill_tokens"].get(i)
                if then is not None:
                    now = sc.token(w, i)
                    t.judge("kill_sends_nothing_further", now == then, dict(f, kill=kind, streamed=streamed, by="progress"), case,
                            "the destination receives nothing more for the flow after the kill (no rest of the body, no terminating chunk / END_STREAM)", {"at_kill": then, "at_end": now, "tail": got[-80:]})
        for i, ended, f in results["ends_flow"]:
            d, hook = sc.msgs[i]
            ff = dict(feats0, dir=d, hook=hook)
            t.judge("kill_ends_flow", ended, ff, case, "no hook of the killed flow is still being handled once the loop has settled after kill()",
                    {"intercepted": f.intercepted, "live": f.live, "error": f.error.msg if f.error else None})
            t.judge("kill_sets_error", f.error is not None and f.error.msg == KILLED and not f.live, ff, case, "flow.error = killed, not live", {"error": f.error.msg if f.error else None, "live": f.live})
            if sc.proto in HTTP_LIKE and hook == "request":
                # (a flow killed in its response hook has already had its one outcome hook: C03)
                n_err = sum(1 for n, data in w.hook_objs if n == "error" and data is f)
                n_resp = sum(1 for n, data in w.hook_objs if n == "response" and data is f)
                t.judge("kill_fires_error_hook", n_err == 1 and n_resp == 0, ff, case, "the killed HTTP flow ends with exactly one error hook and no response hook", {"error_hooks": n_err, "response_hooks": n_resp})
        t.judge("handler_terminates", closed, dict(feats0, after_user_kill=any(v == "killed" for v in fate.values())), case, "connection handler and all hook tasks finished after close-out",
                {"pending": [repr(x)[:90] for x in w.loop.pending_tasks()][:3], "done": w.done})
        t.outcome([self.scen, outcome, closed])
        if w.errors:
            t.note("server logged: " + w.errors[0][:70])
        if verbose:
            print("trace", trace)
            print("log", log)
            print("hooks", names)
            print("outcome (msg, fate, copies, edited copies)", outcome)
            print("dest c2s", sc.dest(w, "c2s")[-300:])
            print("dest s2c", sc.dest(w, "s2c")[-300:])
            print("closed", closed, "errors", w.errors[:2])


def policies(n, tier):
    """per-message addon policy strings: at most 2 (quick) / 3 (thorough) messages not passed"""
    import itertools

    out = []
    limit = 3 if tier == "quick" else n
    kills = 1 if tier == "quick" else 2
    for combo in itertools.product("-ik", repeat=n):
        k = sum(1 for c in combo if c != "-")
        if 1 <= k <= limit and combo.count("k") <= kills:
            out.append("".join(combo))
    return out


def specs(tier):
    out = []
    quick = tier == "quick"
    for scen in SCENARIOS:
        n = len(SCENARIOS[scen]().msgs)
        for pol in policies(n, tier):
            touched = sum(1 for c in pol if c != "-")
            if scen.endswith("-stream"):
                # streaming only changes what happens around the response hooks
                if (pol[1] == "-" and pol[3] == "-") or (quick and touched > 2):
                    continue
            if scen in ("h1-post", "h1-h2up", "h1-post-h2up") and quick and touched > 2:
                continue
            out.append((scen, pol, True, "inplace"))
            # the user's edit replaces the whole request / response object instead of changing it in place
            if scen in ("h1", "h2") and "i" in pol and not (quick and touched > 2):
                out.append((scen, pol, True, "replace"))
            # the user's edit adds a body to a bodiless message / removes the body of a message that had one
            if scen in BODY_EDIT and "i" in pol and not (quick and touched > 2):
                out.append((scen, pol, True, "body"))
    # the client-replay entry path (ReplayHandler.handle_hook): request / response hook of the replayed flow
    for pol in ("i-", "-i", "ii", "k-", "-k", "ik", "ki"):
        out.append(("replay", pol, True, "inplace"))
    return out


class ReplayExec:
    """the client-replay entry path: a flow replayed by the real ClientPlayback addon runs through ReplayHandler.handle_hook
    (not ProxyConnectionHandler's); the addon policy intercepts / kills it in its request or response hook."""

    def __init__(self, pol, edit="inplace"):
        self.pol, self.edit = pol, edit  # pol: 2 chars for (request hook, response hook), each '-', 'i' or 'k'

    def run(self, prefix, t: Tally, verbose=False):
        from vmc.drivers import replaydrv as rd

        f = rd.http_flow(mk(0).decode())
        held = []  # [hook name, state, bytes at the origin when it was intercepted]
        log = []
        kill_at = {}

        def origin_bytes():
            return b"".join(e.w.data for e in rw.servers)

        def policy(name, data, world):
            if data is not f or name not in ("request", "response"):
                return
            p = self.pol[0 if name == "request" else 1]
            if p == "i":
                data.intercept()
                held.append([name, "held", len(origin_bytes())])
                log.append((name, "held"))
            elif p == "k" and data.killable:
                kill_at[name] = len(origin_bytes())
                data.kill()
                log.append((name, "killed_in_hook"))

        rw = rd.ReplayWorld(policy=policy)
        choices, widths, trace = [], [], []
        feats0 = {"proto": "http1-replay"}
        case = {"scen": "replay", "pol": self.pol, "eager": True, "edit": self.edit, "choices": None}
        answered = set()
        ends = []

        def choose(n):
            i = prefix[len(choices)] if len(choices) < len(prefix) else 0
            if i >= n:
                raise HarnessError("choice out of range while replaying %r" % (prefix,))
            choices.append(i)
            widths.append(n)
            return i

        try:
            rw.start_playback()
            rw.start_replay([f])
            for _ in range(30):
                live = [h for h in held if h[1] == "held"]
                pend = rw.pending_connects()
                srv = [e for e in rw.servers if e.state == "open" and not e.r.eof and not e.w.closed and id(e) not in answered and http1ref.parse_requests(e.w.data)[0]]
                acts = []
                if live:
                    acts.append(("resume",))
                if pend:
                    acts.append(("ok",))
                if srv:
                    acts.append(("resp",))
                if live:
                    if f.killable:
                        acts.append(("kill",))
                    acts.append(("edit",))
                if not acts:
                    break
                a = acts[choose(len(acts))] if len(acts) > 1 else acts[0]
                trace.append(a[0])
                if a[0] == "ok":
                    rw.connect_ok(pend[0])
                elif a[0] == "resp":
                    answered.add(id(srv[0]))
                    rw.server_send(srv[0], http_response(1, False))
                else:
                    h = live[0]
                    if a[0] == "resume":
                        h[1] = "resumed"
                    elif a[0] == "edit":
                        h[1] = "edited"
                        if h[0] == "request":
                            f.request.path = "/" + ed(0).decode()
                        else:
                            f.response.content = ed(1)
                    else:
                        h[1] = "killed"
                        kill_at[h[0]] = len(origin_bytes())
                    if a[0] == "kill":
                        rw.act(f.kill)
                        ends.append((h[0], not f.intercepted and rw.cp.inflight is None))  # the playback loop has moved on
                    else:
                        rw.act(f.resume)
                    log.append((h[0], h[1]))
                t.transitions += 1
                for h in held:
                    if h[1] == "held":
                        now = len(origin_bytes())
                        t.judge("nothing_sent_while_intercepted", now == h[2] and (h[0] != "request" or mk(0) not in origin_bytes()), dict(feats0, dir="c2s", hook=h[0]),
                                dict(case, choices=list(choices)), "nothing reaches the origin while the replayed flow is intercepted", origin_bytes()[-120:])
                t.state(["replay", list(log), len(origin_bytes()), len(pend)])
            else:
                raise HarnessError("replay schedule does not terminate: %r" % (trace,))
            for _ in range(20):
                progressed = False
                if f.intercepted:
                    rw.act(f.resume)
                    progressed = True
                for e in rw.pending_connects():
                    rw.connect_fail(e)
                    progressed = True
                for e in rw.servers:
                    if e.state == "open" and not e.r.eof and not e.w.closed:
                        rw.server_eof(e)
                        progressed = True
                if not progressed:
                    break
            rw.shutdown_playback()
            case["choices"] = list(choices)
            got = origin_bytes()
            fate = dict((n, s) for n, s in log if s != "held")
            t.case(case if len(t.samples) < 1 else None, nontrivial=bool(log), key=case)
            n_orig, n_edit = got.count(mk(0)), got.count(ed(0))
            fr = dict(feats0, dir="c2s", hook="request")
            t.judge("never_forwarded_twice", n_orig + n_edit <= 1, fr, case, "at most one copy at the origin", {"orig": n_orig, "edited": n_edit})
            killed = [n for n, s in fate.items() if s in ("killed", "killed_in_hook")]
            if fate.get("request") == "resumed" and not killed:
                t.judge("resume_forwards_once", n_orig == 1 and n_edit == 0, dict(fr, edited=False, count=min(n_orig, 2)), case, "exactly one copy of the resumed request", got[-120:])
            if fate.get("request") == "edited":
                t.judge("resume_forwards_edited_only", n_orig == 0 and (n_edit == 1 or bool(killed)), dict(fr, edited=True), case, "the edited request, once", got[-120:])
            if fate.get("response") == "edited" and not killed:
                t.judge("resume_forwards_edited_only", f.response is not None and f.response.raw_content == ed(1), dict(feats0, dir="s2c", hook="response", edited=True), case,
                        "the user's edit of the replayed response stays on the flow", f.response.raw_content if f.response else None)
            for n in killed:
                kind = "user_on_intercepted" if fate[n] == "killed" else "addon_in_hook"
                t.judge("kill_sends_nothing_further", len(got) == kill_at[n], dict(feats0, dir="c2s", hook=n, kill=kind), case, "nothing reaches the origin after the kill", got[kill_at[n]:][:120])
                t.judge("kill_sets_error", f.error is not None and f.error.msg == KILLED, dict(feats0, hook=n), case, "flow.error = killed", f.error.msg if f.error else None)
            for n, ended in ends:
                t.judge("kill_ends_flow", ended, dict(feats0, dir="c2s", hook=n), case, "the replay of the killed flow ends", None)
            names = [h for h, d in rw.hook_objs if d is f]
            t.judge("handler_terminates", not rw.loop.pending_tasks(), dict(feats0, after_user_kill="killed" in fate.values()), case, "no task left after the replay", [repr(x)[:80] for x in rw.loop.pending_tasks()][:3])
            t.outcome(["replay", sorted(fate.items()), n_orig, n_edit, names])
            if verbose:
                print("trace", trace, "log", log, "hooks", names)
                print("origin got", got[-200:], "response on flow", f.response.raw_content if f.response else None, "error", f.error)
        finally:
            rw.dispose()
        return choices, widths, None


def make_exec(key):
    if key[0] == "replay":
        return ReplayExec(key[1], key[3])
    return Exec(*key)


def run(ctx):
    bound = ctx.pick(3, 4)
    sp = specs(ctx.tier)
    ctx.bounds = {"scenarios": list(SCENARIOS) + ["replay (ClientPlayback / ReplayHandler entry path)"], "policies": "per message one of - (pass), i (intercept), k (kill in hook); %s" % ctx.pick("<= 3 not passed, <= 1 k", "any number not passed, <= 2 k"),
                  "user_actions": ["resume", "kill", "edit+resume (in place; for h1/h2 also by replacing the message object)"], "deviation_bound": bound, "specs": len(sp)}
    ctx.log("%d specs, deviation bound %d" % (len(sp), bound))
    mbfs.dfs_dev_many(sp, make_exec, bound, ctx.tally, log=ctx.log)


def replay(case, t, verbose=False):
    make_exec((case["scen"], case["pol"], bool(case["eager"]), case.get("edit", "inplace"))).run(tuple(case["choices"]), t, verbose=verbose)
