"""http1ref - an independent, strict RFC 9112 message reader (DESIGN.md Appendix B).

parse_requests(data)            -> (messages, verdict)   verdict in ok|incomplete|invalid:<why>|ambiguous:<why>
parse_responses(data, methods, eof=False) -> (messages, verdict)

A message is a dict: start (3-tuple of bytes), fields [(name, value)], body bytes,
trailers [(name, value)], framing ("none"|"cl"|"chunked"|"eof").  Parsing stops at the
first message that is not `ok`; messages before it are returned.
"""
from __future__ import annotations

import re

TOKEN = re.compile(rb"^[!#$%&'*+\-.^_`|~0-9A-Za-z]+$")
VERSION = re.compile(rb"^HTTP/\d\.\d$")
DIGITS = re.compile(rb"^[0-9]+$")
HEXD = re.compile(rb"^[0-9A-Fa-f]+$")


class Stop(Exception):
    def __init__(self, verdict):
        self.verdict = verdict


def _line(data, pos):
    """next line ending in CRLF or bare LF; returns (line_without_eol, newpos) or raises incomplete"""
    i = data.find(b"\n", pos)
    if i < 0:
        raise Stop("incomplete")
    line = data[pos:i]
    if line.endswith(b"\r"):
        line = line[:-1]
    return line, i + 1


def _fields(data, pos, request):
    fields = []
    while True:
        line, pos = _line(data, pos)
        if line == b"":
            return fields, pos
        if line[:1] in (b" ", b"\t"):
            raise Stop("invalid:obs-fold")
        if b":" not in line:
            raise Stop("invalid:field-without-colon")
        name, value = line.split(b":", 1)
        if not TOKEN.match(name):
            raise Stop("invalid:field-name")
        value = value.strip(b" \t").replace(b"\r", b" ")
        if b"\x00" in value or b"\n" in value:
            raise Stop("invalid:field-value")
        fields.append((name, value))


def _get(fields, name):
    return [v for n, v in fields if n.lower() == name]


def _framing(fields, request, nobody):
    te = _get(fields, b"transfer-encoding")
    cl = _get(fields, b"content-length")
    if te and cl:
        raise Stop("ambiguous:te+cl")
    if te:
        codings = [c.strip(b" \t").lower() for v in te for c in v.split(b",")]
        if any(c == b"" for c in codings):
            raise Stop("invalid:te-empty-coding")
        if codings.count(b"chunked") > 1:
            raise Stop("ambiguous:te-chunked-twice")
        if codings[-1] == b"chunked":
            if nobody:
                return "none", 0
            return "chunked", None
        if b"chunked" in codings:
            raise Stop("ambiguous:te-chunked-not-final")
        if request:
            raise Stop("invalid:te-without-chunked-in-request")
        return ("none", 0) if nobody else ("eof", None)
    if cl:
        vals = set()
        for v in cl:
            for part in v.split(b","):
                part = part.strip(b" \t")
                if not DIGITS.match(part):
                    raise Stop("ambiguous:cl-malformed")
                vals.add(int(part))
        if len(cl) > 1 or any(b"," in v for v in cl):
            raise Stop("ambiguous:cl-multiple")
        n = vals.pop()
        if nobody:
            return "none", 0
        return "cl", n
    if request or nobody:
        return "none", 0
    return "eof", None


def _chunked(data, pos):
    body = bytearray()
    while True:
        line, pos = _line(data, pos)
        size = line.split(b";", 1)[0].strip(b" \t")
        if not HEXD.match(size):
            raise Stop("invalid:chunk-size")
        n = int(size, 16)
        if n == 0:
            break
        if len(data) < pos + n:
            raise Stop("incomplete")
        body += data[pos:pos + n]
        pos += n
        line, pos = _line(data, pos)
        if line != b"":
            raise Stop("invalid:chunk-terminator")
    trailers, pos = _fields(data, pos, True)
    return bytes(body), trailers, pos


def _one(data, pos, request, method=None, eof=False):
    line, p = _line(data, pos)
    if request:
        parts = line.split(b" ")
        if len(parts) != 3 or not TOKEN.match(parts[0]) or not parts[1] or not VERSION.match(parts[2]):
            raise Stop("invalid:request-line")
        if any(c <= 0x20 or c == 0x7F for c in parts[1]):
            raise Stop("invalid:request-target")
        start = tuple(parts)
    else:
        parts = line.split(b" ", 2)
        if len(parts) < 2 or not VERSION.match(parts[0]) or not re.match(rb"^[0-9]{3}$", parts[1]):
            raise Stop("invalid:status-line")
        start = (parts[0], parts[1], parts[2] if len(parts) > 2 else b"")
    fields, p = _fields(data, p, request)
    nobody = False
    if not request:
        code = int(start[1])
        nobody = method == b"HEAD" or 100 <= code < 200 or code in (204, 304) or (method == b"CONNECT" and 200 <= code < 300)
    kind, n = _framing(fields, request, nobody)
    trailers = []
    if kind == "none":
        body = b""
    elif kind == "cl":
        if len(data) < p + n:
            raise Stop("incomplete")
        body = data[p:p + n]
        p += n
    elif kind == "chunked":
        body, trailers, p = _chunked(data, p)
    else:  # eof
        if not eof:
            raise Stop("incomplete")
        body = data[p:]
        p = len(data)
    return {"start": start, "fields": fields, "body": bytes(body), "trailers": trailers, "framing": kind}, p


def parse_requests(data: bytes):
    msgs, pos = [], 0
    data = bytes(data)
    while pos < len(data):
        try:
            m, pos = _one(data, pos, True)
        except Stop as s:
            return msgs, s.verdict
        msgs.append(m)
    return msgs, "ok"


def parse_responses(data: bytes, methods, eof=False):
    """methods: request methods in order (a 1xx response does not consume a method)"""
    msgs, pos, k = [], 0, 0
    data = bytes(data)
    while pos < len(data):
        method = methods[k] if k < len(methods) else None
        try:
            m, pos = _one(data, pos, False, method=method, eof=eof)
        except Stop as s:
            return msgs, s.verdict
        msgs.append(m)
        if not (100 <= int(m["start"][1]) < 200) or int(m["start"][1]) == 101:
            k += 1
    return msgs, "ok"


def classify_request_head(head: bytes):
    """verdict for a single complete request head+body (used to decide 'must be rejected')"""
    msgs, verdict = parse_requests(head)
    return verdict
