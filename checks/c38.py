"""C38 - flows written by older mitmproxy versions load correctly.

* every shipped historical dump under test/mitmproxy/data/dumpfile-* is loaded with the real
  FlowReader; every loaded flow must be a valid current flow, key request/response fields are
  compared with an independent decoding of the old record, and re-saving + re-loading is a fixpoint;
* synthetic old files: flows of the C36 grammar (base flow of every type, every single field
  deviation; in the thorough tier also every pair of interacting field deviations) are converted *down* to every historical format version by
  down-converters written here (the inverse of each documented step of compat.py, dropping what
  the old shape could not hold), written as tnetstrings and loaded with the real FlowReader
  (=> compat.migrate_flow + Flow.from_state).  Fields that were representable in that version
  must come back unchanged, everything must be valid;
* current-format states pass through migrate_flow unchanged;
* future / unknown versions are rejected with a FlowReadException that names the version.
"""
from __future__ import annotations

import copy
import glob
import os

from mitmproxy import version
from mitmproxy.io import compat

from vmc.refs import flowgen as G
from vmc.tally import Tally

META = {
    "level": "exploration",
    "technique": "bounded-exhaustive enumeration: (flow of the C36 field-deviation grammar) x (every historical flow format version), converted down by "
                 "check-local inverse converters and loaded through the real FlowReader/compat.migrate_flow/Flow.from_state; all shipped dumps; future versions",
    "claim": "every enumerated old-format state loads into a valid current flow that keeps every field the old format could represent, migration of current states is the identity, "
             "re-save/re-load is a fixpoint and future versions are refused with a message naming the version; exploration because the quantifier is over inputs",
    "rule": "a case is (flow type, deviation, target version) | (shipped dump file) | (current state) | (future version, shape); distinct = distinct case description; "
            "non-trivial = at least one converter of compat.py ran on the record (target version < current), or the record carries a non-current version",
    "assumptions": [
        "what an old release really wrote is known only through the shipped dumps; the down-converters are the documented inverse of compat.py (key sets are cross-checked against the shipped dumps of versions 7, 10, 11 and 20), "
        "so this detects crashes, lost fields and regressions of the converter chain, not historical misunderstandings",
        "flow types per version: http and tcp everywhere; separate 'websocket' flow records for integer versions 4-11 (merged into the HTTP flow from 12 on); udp and dns from version 17",
        "tuple versions older than (1,0) are covered by the shipped dumps only (0.11, 0.18); (0,10) is unsupported and must be refused cleanly",
        "fields introduced after a version are only required to be valid after migration, not to take a particular default",
    ],
}

CUR = version.FLOW_FORMAT_VERSION
INT_VERSIONS = list(range(4, CUR))
TUPLE_VERSIONS = [(1, 0), (2, 0), (3, 0)]


def vkey(v):
    """sortable position of a version in history"""
    return (0, v[0], v[1]) if isinstance(v, tuple) else (1, v, 0)


ALL_VERSIONS = sorted(TUPLE_VERSIONS + INT_VERSIONS, key=vkey)
# quick tier, non-core deviations only: the oldest tuple and integer versions (the whole converter chain runs), both sides of
# the connection rewrite (9/10), the last version with separate websocket records (11), the first with udp/dns (17), the newest old one
QUICK_VERSIONS = [(1, 0), 4, 9, 10, 11, 17, 20]


def types_at(v):
    ts = ["http", "tcp"]
    if isinstance(v, int):
        ts.append("ws")
        if v >= 17:
            ts += ["udp", "dns"]
    return ts


# ---------------------------------------------------------------------------
# down-converters.  Each takes the state in the shape of version N+1 and returns the shape of version N.
# `lost` is filled with path patterns (tuples, "*" = any index) whose value the older shape cannot hold.


class NotRepresentable(Exception):
    """the flow cannot be expressed in that version at all (the case is skipped and counted)"""


def _conns(s):
    return [s["client_conn"], s["server_conn"]]


def d_20(s, lost):  # 21 -> 20
    for c in _conns(s):
        if c["tls_version"] == "QUICv1":
            c["tls_version"] = "QUIC"
    s["version"] = 20


def d_19(s, lost):  # 20 -> 19
    for c in _conns(s):
        c["state"] = 0
    s["version"] = 19


def d_18(s, lost):  # 19 -> 18: connection refactoring
    c, sv = s["client_conn"], s["server_conn"]
    c["address"] = c.pop("peername")
    c["tls_extensions"] = []
    sv["ip_address"] = sv.pop("peername")
    sv["source_address"] = sv.pop("sockname")
    sv["via2"] = sv.pop("via")
    sv["via"] = None
    for x in (c, sv):
        x["tls_established"] = x["timestamp_tls_setup"] is not None
        x["cipher_name"] = x.pop("cipher")
    s["version"] = 18


def d_17(s, lost):  # 18 -> 17
    s["client_conn"].pop("proxy_mode")
    lost.add(("client_conn", "proxy_mode"))
    s["version"] = 17


def d_16(s, lost):  # 17 -> 16
    s["mode"] = "regular"
    for n in ("client_conn", "server_conn"):
        s[n].pop("transport_protocol")
        lost.add((n, "transport_protocol"))
    s["version"] = 16


def d_15(s, lost):  # 16 -> 15
    s.pop("timestamp_created")
    lost.add(("timestamp_created",))
    s["version"] = 15


def d_14(s, lost):  # 15 -> 14
    if s.get("websocket"):
        s["websocket"]["messages"] = [list(m[:5]) for m in s["websocket"]["messages"]]
        lost.add(("websocket", "messages", "*", 5))
    s["version"] = 14


def d_13(s, lost):  # 14 -> 13
    s.pop("comment")
    lost.add(("comment",))
    s["version"] = 13


def d_12(s, lost):  # 13 -> 12
    s["marked"] = bool(s["marked"])
    s["version"] = 12


def d_11(s, lost):  # 12 -> 11: websocket flows are separate records again (handled by split_ws)
    s.pop("websocket", None)
    s["version"] = 11


def d_10(s, lost):  # 11 -> 10
    for c in _conns(s):
        c["alpn_proto_negotiated"] = c.pop("alpn")
    s["version"] = 10


def d_9(s, lost):  # 10 -> 9
    c, sv = s["client_conn"], s["server_conn"]
    for n, x in (("client_conn", c), ("server_conn", sv)):
        x.pop("state")
        x.pop("error")
        x["tls_established"] = x.pop("tls")
        x.pop("alpn_offers")
        x.pop("cipher_list")
        lost.update({(n, "error"), (n, "alpn_offers"), (n, "cipher_list")})
        certs = x.pop("certificate_list")
        x["clientcert" if x is c else "cert"] = certs[0] if certs else None
    c.pop("sockname")
    lost.add(("client_conn", "sockname"))
    sv.pop("cipher_name")
    sv.pop("via2")
    lost.update({("server_conn", "cipher"), ("server_conn", "via")})
    s["version"] = 9


def d_8(s, lost):  # 9 -> 8
    rep = s.pop("is_replay")
    if "request" in s:
        s["request"]["first_line_format"] = "relative"
        s["request"].pop("authority")
        lost.add(("request", "authority"))
        s["request"]["is_replay"] = rep == "request"
        if s.get("response") is not None:
            s["response"]["is_replay"] = rep == "response"
    s["version"] = 8


def d_7(s, lost):  # 8 -> 7
    for m in ("request", "response"):
        if s.get(m) is not None:
            s[m].pop("trailers")
            lost.add((m, "trailers"))
    s["version"] = 7


def d_6(s, lost):  # 7 -> 6
    s["client_conn"].pop("tls_extensions")
    s["version"] = 6


def d_5(s, lost):  # 6 -> 5
    for c in _conns(s):
        c["ssl_established"] = c.pop("tls_established")
        c["timestamp_ssl_setup"] = c.pop("timestamp_tls_setup")
    s["version"] = 5


def d_4(s, lost):  # 5 -> 4
    for n in ("client_conn", "server_conn"):
        s[n].pop("id")
        lost.add((n, "id"))
    if s["server_conn"]["source_address"] is None:
        # version 4 always had a source address tuple
        s["server_conn"]["source_address"] = ["", 0]
        lost.add(("server_conn", "sockname"))
    s["version"] = 4


def d_300(s, lost):  # 4 -> (3,0)
    s["version"] = [3, 0, 0]


def d_200(s, lost):  # (3,0) -> (2,0)
    s["client_conn"].pop("mitmcert")
    s["server_conn"].pop("tls_version")
    lost.update({("client_conn", "mitmcert"), ("server_conn", "tls_version")})
    s["version"] = [2, 0, 0]


def d_100(s, lost):  # (2,0) -> (1,0): addresses were {"address": (host, port), "use_ipv6": bool}
    def wrap(a):
        return {"address": a, "use_ipv6": bool(a and ":" in a[0])}
    c, sv = s["client_conn"], s["server_conn"]
    if sv["address"] is None:
        raise NotRepresentable("server address None")
    c["address"] = wrap(c["address"])
    sv["address"] = wrap(sv["address"])
    sv["source_address"] = wrap(sv["source_address"])
    if sv["ip_address"]:
        sv["ip_address"] = wrap(sv["ip_address"])
    s["version"] = [1, 0, 0]


STEPS = [(20, d_20), (19, d_19), (18, d_18), (17, d_17), (16, d_16), (15, d_15), (14, d_14), (13, d_13), (12, d_12), (11, d_11),
         (10, d_10), (9, d_9), (8, d_8), (7, d_7), (6, d_6), (5, d_5), (4, d_4), ((3, 0), d_300), ((2, 0), d_200), ((1, 0), d_100)]


def split_ws(s12, lost):
    """the version-12 HTTP+WebSocket state as the two records versions <= 11 used (state still in v12 shape otherwise)"""
    ws = s12.pop("websocket")
    hs = s12
    for m in ws["messages"]:
        # versions <= 11 stored the payload of TEXT messages as str
        if m[0] == 1:
            try:
                m[2] = m[2].decode("utf8")
            except UnicodeDecodeError:
                raise NotRepresentable("TEXT message that is not UTF-8")
    hs["metadata"] = dict(hs["metadata"], websocket=True)
    rec = {
        "type": "websocket", "version": 12, "id": hs["id"][:-1] + "f", "client_conn": copy.deepcopy(hs["client_conn"]),
        "server_conn": copy.deepcopy(hs["server_conn"]), "error": copy.deepcopy(hs["error"]), "intercepted": hs["intercepted"],
        "is_replay": None, "marked": hs["marked"], "metadata": {"websocket_handshake": hs["id"]}, "mode": hs.get("mode", "regular"),
        "messages": ws["messages"], "close_sender": "client" if ws["closed_by_client"] else "server", "close_code": ws["close_code"],
        "close_reason": ws["close_reason"], "close_message": "(message missing)", "client_key": "MTIzNA==", "client_protocol": None,
        "client_extensions": None, "server_accept": "", "server_protocol": None, "server_extensions": None,
    }
    lost.add(("websocket", "timestamp_end"))
    return hs, rec


def to_mutable(x):
    if isinstance(x, dict):
        return {k: to_mutable(v) for k, v in x.items()}
    if isinstance(x, (list, tuple)):
        return [to_mutable(v) for v in x]
    return x


def down(state, target):
    """current state -> (list of records in the shape of `target`, lost path patterns)"""
    s = to_mutable(state)
    s.pop("backup", None)
    lost: set = set()
    recs = [s]
    for v, fn in STEPS:
        if vkey(v) < vkey(target):
            break
        if v == 11 and recs[0].get("websocket"):
            hs, ws = split_ws(recs[0], lost)
            hs["websocket"] = None
            recs = [hs, ws]
        for r in recs:
            if r["type"] == "websocket":
                # the separate websocket record only carries connections and flow-level fields
                if fn in (d_11,):
                    r["version"] = 11
                    continue
                tmp_lost: set = set()
                fn(r, tmp_lost)
            else:
                fn(r, lost)
    return recs, lost


# ---------------------------------------------------------------------------
# oracle: fields representable in the old version are preserved


def matches(path, pat):
    return len(path) == len(pat) and all(q == "*" or p == q for p, q in zip(path, pat))


def under(path, pat):
    return len(path) >= len(pat) and matches(path[:len(pat)], pat)


def projections(target, ftype, orig):
    """value projections: what the old shape keeps of a field (applied to both sides)"""
    pr = {}
    if vkey(target) < vkey(13):
        pr[("marked",)] = bool
    if vkey(target) < vkey(12) and orig.get("websocket"):
        pr[("websocket", "closed_by_client")] = bool
    if vkey(target) < vkey(10):
        pr[("client_conn", "certificate_list")] = lambda x: list(x[:1])
        pr[("server_conn", "certificate_list")] = lambda x: list(x[:1])
    if vkey(target) < vkey(9):
        resp = orig.get("response") is not None
        if ftype in ("http", "ws"):
            pr[("is_replay",)] = lambda x: x if (x == "request" or (x == "response" and resp)) else None
        else:
            pr[("is_replay",)] = lambda x: None
    return pr


def compare_representable(orig, got, lost, pr, ignore_meta=()):
    """differences between the original current state and the migrated one, on representable paths only"""
    out = []

    def walk(a, b, path):
        if len(out) >= 5:
            return
        if any(under(path, p) for p in lost):
            return
        if path in pr:
            pa, pb = pr[path](a), pr[path](b)
            if G.canon(pa) != G.canon(pb):
                out.append(("/".join(map(str, path)), G._brief(pa), G._brief(pb)))
            return
        if isinstance(a, dict) and isinstance(b, dict):
            for k in a:
                if k not in b:
                    out.append(("/".join(map(str, path + (k,))), G._brief(a[k]), "<absent>"))
                else:
                    walk(a[k], b[k], path + (k,))
            for k in b:
                if k not in a and not (path == ("metadata",) and k in ignore_meta):
                    out.append(("/".join(map(str, path + (k,))), "<absent>", G._brief(b[k])))
            return
        if isinstance(a, (list, tuple)) and isinstance(b, (list, tuple)):
            if len(a) != len(b):
                out.append(("/".join(map(str, path)) + "/#len", len(a), len(b)))
                return
            for i, (x, y) in enumerate(zip(a, b)):
                walk(x, y, path + (i,))
            return
        if G.canon(a) != G.canon(b):
            out.append(("/".join(map(str, path)), G._brief(a), G._brief(b)))

    walk(orig, got, ())
    return out


def vname(target):
    return ".".join(map(str, target)) if isinstance(target, tuple) else target


def _pat(path):
    """a diff / problem path with list indices blanked: the symptom class"""
    return "/".join("*" if seg.isdigit() else seg for seg in path.split(":")[0].strip().split("/"))


def symptom_of(r):
    """coarse class of a failed load: exception type and where it came from / what it said"""
    if r.end == "flow_read_error":
        return "FlowReadException(%s)" % r.msg.split(":")[0][:40]
    return "%s@%s" % (r.exc, r.stage or "-")


class Verdict:
    """one clause evaluation of a synthetic case: symptom = coarse class of what went wrong (None = held)"""
    __slots__ = ("clause", "symptom", "expected", "observed")

    def __init__(self, clause, symptom=None, expected=None, observed=None):
        self.clause, self.symptom, self.expected, self.observed = clause, symptom, expected, observed


def evaluate(ftype, devnames, target):
    """-> (list of Verdict, outcome) or None if the flow cannot be expressed in the target version"""
    f = G.build(ftype, devnames)
    orig = to_mutable(f.get_state())
    orig.pop("backup", None)
    try:
        recs, lost = down(orig, target)
    except NotRepresentable:
        return None
    out = []
    data = b"".join(G.tn(r) for r in recs)
    r = G.read_bytes(data)
    nexp = len(recs)
    outcome = (r.end, r.exc, r.stage)
    if not (r.end == "clean" and len(r.flows) == nexp):
        sym = symptom_of(r) if r.end != "clean" else "wrong-number-of-flows"
        out.append(Verdict("loads_to_valid_flow", sym, "%d flow(s), clean end" % nexp, [len(r.flows), r.end, r.exc, r.stage, r.msg[:300]]))
        return out, outcome
    states, problems = [], []
    for fl in r.flows:
        try:
            st = fl.get_state()
            states.append(st)
            problems += G.validate_state(st, CUR)
        except KeyboardInterrupt:
            raise
        except BaseException as e:  # noqa: B036
            problems.append("/get_state: raised %s: %s" % (type(e).__name__, str(e)[:200]))
    if problems:
        out.append(Verdict("loads_to_valid_flow", "invalid:" + _pat(problems[0]), "valid current flow state", problems[:5]))
        return out, outcome
    out.append(Verdict("loads_to_valid_flow"))
    main = to_mutable(states[-1])
    main.pop("backup", None)
    pr = projections(target, ftype, orig)
    ignore = ("websocket", "duplicated") if nexp == 2 else ()
    d = compare_representable(orig, main, lost, pr, ignore)
    if nexp == 2:
        hs = to_mutable(states[0])
        hs.pop("backup", None)
        d = d + [("handshake:" + x[0], x[1], x[2]) for x in compare_representable(orig, hs, lost | {("websocket",)}, pr, ignore)]
        if hs.get("websocket") is not None:
            d.append(("handshake:websocket", None, "not None"))
    out.append(Verdict("representable_fields_preserved", ("lost:" + _pat(d[0][0].replace("handshake:", ""))) if d else None, [x[1] for x in d], [[x[0], x[2]] for x in d]))
    try:
        data2 = G.dump_flows(r.flows)
        r2 = G.read_bytes(data2)
        same = r2.end == "clean" and len(r2.flows) == nexp and all(G.canon(a) == G.canon(b.get_state()) for a, b in zip(states, r2.flows))
        obs = None if same else [r2.end, r2.exc, r2.msg[:200], [G.diff(a, b.get_state())[:3] for a, b in zip(states, r2.flows)][:2]]
    except KeyboardInterrupt:
        raise
    except BaseException as e:  # noqa: B036
        same, obs = False, "%s: %s" % (type(e).__name__, str(e)[:200])
    out.append(Verdict("resave_reload_fixpoint", None if same else "not-a-fixpoint", "identical state after save+load", obs))
    return out, outcome


_BASE_SYMPTOMS: dict = {}


def symptoms_of(ftype, devnames, target):
    """what already fails for a smaller flow (default, or one deviation) of that type at that version"""
    k = (ftype, tuple(devnames), target)
    if k not in _BASE_SYMPTOMS:
        res = evaluate(ftype, list(devnames), target)
        _BASE_SYMPTOMS[k] = {(v.clause, v.symptom) for v in res[0] if v.symptom} if res else set()
    return _BASE_SYMPTOMS[k]


def synth_case(case, t: Tally):
    ftype, devnames, target = case["t"], list(case["d"]), case["v"]
    target = tuple(target) if isinstance(target, list) else target
    res = evaluate(ftype, devnames, target)
    if res is None:
        t.note("flow not representable in the target version (skipped)")
        t.case(None, nontrivial=False, key=case)
        return
    verdicts, outcome = res
    t.outcome(outcome)
    tab = G.dev_table(ftype)
    for v in verdicts:
        if v.symptom is None:
            t.ok(v.clause)
            continue
        feats = {"ftype": ftype, "from_version": vname(target), "symptom": v.symptom}
        # minimal trigger: the default flow, else one of the deviations alone, else the combination
        if devnames:
            if (v.clause, v.symptom) in symptoms_of(ftype, [], target):
                t.note("violation already shown by the default flow of that type and version")
            else:
                single = [n for n in devnames if len(devnames) == 1 or (v.clause, v.symptom) in symptoms_of(ftype, [n], target)]
                if len(devnames) > 1 and single:
                    t.note("pair violation explained by a single deviation")
                for i, n in enumerate(single[:1] or devnames):
                    feats["field" if i == 0 else "field2"], feats["kind" if i == 0 else "kind2"] = tab[n].field, tab[n].kind
        t.bad(v.clause, feats, case, v.expected, v.observed)
    t.case(case if devnames and len(t.samples) < 3 else None, nontrivial=True, key=case)


# ---------------------------------------------------------------------------
# shipped dumps


def _g(d, k):
    if isinstance(d, dict):
        return d.get(k, d.get(k.encode()))
    return None


def _s(x):
    return x.decode("utf8", "surrogateescape") if isinstance(x, bytes) else x


def old_http_view(rec):
    """fields of an old HTTP record whose meaning never changed, decoded independently of compat.py"""
    req, resp = _g(rec, "request"), _g(rec, "response")
    v = {}
    if isinstance(req, dict):
        hv = _g(req, "http_version")
        if hv is None and _g(req, "httpversion") is not None:
            hv = b"HTTP/" + ".".join(str(x) for x in _g(req, "httpversion")).encode()
        body = _g(req, "content") if _g(req, "content") is not None else _g(req, "body")
        v["request"] = {"method": _g(req, "method"), "scheme": _g(req, "scheme"), "host": _s(_g(req, "host")), "port": _g(req, "port"),
                        "path": _g(req, "path"), "http_version": hv, "headers": [list(h) for h in _g(req, "headers")], "content": body}
    if isinstance(resp, dict):
        body = _g(resp, "content") if _g(resp, "content") is not None else _g(resp, "body")
        code = _g(resp, "status_code") if _g(resp, "status_code") is not None else _g(resp, "code")
        v["response"] = {"status_code": code, "headers": [list(h) for h in _g(resp, "headers")], "content": body}
    return v


def new_http_view(st):
    v = {}
    req, resp = st.get("request"), st.get("response")
    if req:
        v["request"] = {k: req[k] for k in ("method", "scheme", "host", "port", "path", "http_version", "content")}
        v["request"]["headers"] = [list(h) for h in req["headers"]]
    if resp:
        v["response"] = {"status_code": resp["status_code"], "headers": [list(h) for h in resp["headers"]], "content": resp["content"]}
    return v


def shipped_files():
    return sorted(os.path.basename(p) for p in glob.glob(os.path.join(G.DATA_DIR, "dumpfile-*")))


def raw_records(data):
    out, pos = [], 0
    while pos < len(data):
        rec, pos = G.tn_loads(data, pos)
        out.append(rec)
    return out


def _ver(rec):
    v = _g(rec, "version")
    return tuple(v[:2]) if isinstance(v, (list, tuple)) else v


def shipped_case(case, t: Tally):
    name = case["file"]
    with open(os.path.join(G.DATA_DIR, name), "rb") as f:
        data = f.read()
    recs = raw_records(data)
    vers = sorted({_ver(r) for r in recs}, key=vkey)
    supported = all(v in compat.converters or v == CUR for v in vers)
    feats = {"file": name, "supported": supported}
    with open(os.path.join(G.DATA_DIR, name), "rb") as fo:
        r = G.read(fo)
    t.outcome((name, len(r.flows), r.end, r.exc))
    if not supported:
        # an unsupported old version must be refused cleanly (and name the version)
        t.judge("unsupported_version_refused_cleanly", r.end == "flow_read_error" and not r.flows, dict(feats, exc=r.exc or "-"), case, "FlowReadException", [r.end, r.exc, r.msg])
        t.case(case, nontrivial=True, key=case)
        return
    loaded = r.end == "clean" and len(r.flows) == len(recs)
    ok = t.judge("loads_to_valid_flow", loaded, dict(feats, symptom="-" if loaded else (symptom_of(r) if r.end != "clean" else "wrong-number-of-flows")), case,
                 "%d flows, clean end" % len(recs), [len(r.flows), r.end, r.exc, r.stage, r.msg[:300]])
    if ok:
        states = [fl.get_state() for fl in r.flows]
        problems = [p for st in states for p in G.validate_state(st, CUR)]
        t.judge("loads_to_valid_flow", not problems, dict(feats, symptom="invalid:" + _pat(problems[0]) if problems else "-"), case, "valid current flow states", problems[:5])
        # independent comparison of the fields whose meaning never changed (HTTP records only)
        diffs = []
        for rec, st in zip(recs, states):
            if _s(_g(rec, "type")) == "http":
                d = G.diff(old_http_view(rec), new_http_view(st))
                if d:
                    diffs.append(d[:3])
        t.judge("representable_fields_preserved", not diffs, feats, case, None, diffs[:2])
        data2 = G.dump_flows(r.flows)
        r2 = G.read_bytes(data2)
        same = r2.end == "clean" and len(r2.flows) == len(states) and all(G.canon(a) == G.canon(b.get_state()) for a, b in zip(states, r2.flows))
        t.judge("resave_reload_fixpoint", same, feats, case, "identical state after save+load", [r2.end, r2.exc, r2.msg[:200]])
    t.case(case, nontrivial=True, key=case)


# ---------------------------------------------------------------------------
# current states and future versions


def current_case(case, t: Tally):
    ftype, devnames = case["t"], list(case["d"])
    f = G.build(ftype, devnames)
    st = to_mutable(f.get_state())
    want = copy.deepcopy(st)
    feats = {"ftype": ftype}
    if devnames:
        d0 = G.dev_table(ftype)[devnames[0]]
        feats["field"], feats["kind"] = d0.field, d0.kind
    G.reset_module_state()
    try:
        out = compat.migrate_flow(st)
        ok = out is st and G.canon(out) == G.canon(want)
        obs = None if ok else G.diff(want, out)[:3]
    except KeyboardInterrupt:
        raise
    except BaseException as e:  # noqa: B036
        ok, obs = False, "%s: %s" % (type(e).__name__, str(e)[:200])
    t.judge("current_passes_unchanged", ok, feats, case, "the same state", obs)
    t.case(None, nontrivial=False, key=case)


FUTURE = [CUR + 1, CUR + 2, 99, 2 ** 31, 10 ** 20]
FUTURE_SHAPES = ["version-only", "current-state", "current-state+unknown-keys", "current-state-missing-keys", "after-a-good-flow"]


def future_case(case, t: Tally):
    v, shape = case["v"], case["shape"]
    base = to_mutable(G.base(case["t"]).get_state())
    if shape == "version-only":
        recs = [{"version": v}]
    elif shape == "current-state":
        recs = [dict(base, version=v)]
    elif shape == "current-state+unknown-keys":
        recs = [dict(base, version=v, new_field={"x": [1, 2]}, client_conn=dict(base["client_conn"], new_conn_field=None))]
    elif shape == "current-state-missing-keys":
        recs = [{k: x for k, x in dict(base, version=v).items() if k not in ("marked", "server_conn")}]
    else:
        recs = [base, dict(base, version=v, id=G.uid(999))]
    r = G.read_bytes(b"".join(G.tn(x) for x in recs))
    feats = {"version": "current+%d" % (v - CUR) if v - CUR < 10 else "far-future", "shape": shape, "ftype": case["t"]}
    good = len(recs) - 1
    rejected = r.end == "flow_read_error" and len(r.flows) == good
    t.judge("future_rejected", rejected, dict(feats, exc=r.exc or "-"), case, "FlowReadException after %d flows" % good, [len(r.flows), r.end, r.exc, r.msg[:200]])
    if rejected:
        t.judge("future_rejected_with_message", str(v) in r.msg and "version" in r.msg.lower(), feats, case, "a message naming flow format version %d" % v, r.msg[:300])
    t.outcome((r.end, r.exc, "msg" if str(v) in r.msg else "nomsg"))
    t.case(case if shape == "current-state" and v == CUR + 1 else None, nontrivial=True, key=case)


def one(case, t: Tally):
    k = case["k"]
    if k == "synth":
        synth_case(case, t)
    elif k == "shipped":
        shipped_case(case, t)
    elif k == "current":
        current_case(case, t)
    elif k == "future":
        future_case(case, t)
    else:
        raise ValueError(k)


def shape_crosscheck(log, t: Tally):
    """harness sanity: key sets of the down-converted base HTTP flow against the shipped records of the same version"""
    base = to_mutable(G.base("http").get_state())
    for name in shipped_files():
        with open(os.path.join(G.DATA_DIR, name), "rb") as f:
            recs = raw_records(f.read())
        for rec in recs[:2]:
            v = _ver(rec)
            if _s(_g(rec, "type")) != "http" or not (isinstance(v, int) and 4 <= v <= CUR - 1):
                continue
            mine, _ = down(base, v)

            def keys(d, p=""):
                out = set()
                for k, x in d.items():
                    out.add(p + _s(k))
                    if isinstance(x, dict) and _s(k) in ("client_conn", "server_conn", "request", "response"):
                        out |= keys(x, p + _s(k) + ".")
                return out
            a, b = keys(mine[0]) - {"backup"}, keys(rec) - {"backup"}  # `backup` is optional in every version and dropped by down()
            if _g(rec, "response") is None:
                a = {k for k in a if not k.startswith("response.")}
            if a != b:
                t.note("down-converter shape differs from %s (v%s): only-mine=%s only-shipped=%s" % (name, v, sorted(a - b), sorted(b - a)))
                log("shape cross-check %s v%s: only in down-converted=%s only in shipped=%s" % (name, v, sorted(a - b), sorted(b - a)))
            else:
                log("shape cross-check %s v%s: key sets agree (%d keys)" % (name, v, len(a)))


def run(ctx):
    thorough = ctx.thorough
    # every historical version in both tiers (a converter step is only exercised by files older than it);
    # the tiers differ in how many field deviations are carried down
    versions = ALL_VERSIONS
    cases = [{"k": "shipped", "file": n} for n in shipped_files()]
    for ft in G.FTYPES:
        devs = G.deviations(ft)
        devs = [d for d in devs if d.field != "backup"]
        core = [d for d in devs if d.core]
        pool = [([], versions)] + [([d.name], versions if (thorough or d.core) else QUICK_VERSIONS) for d in devs]
        if thorough:
            pool += [([a.name, b.name], versions) for i, a in enumerate(core) for b in core[i + 1:] if not G.conflict(a, b)]
        for dn, vs in pool:
            for v in vs:
                if ft in types_at(v):
                    cases.append({"k": "synth", "t": ft, "d": dn, "v": list(v) if isinstance(v, tuple) else v})
    nsynth = len(cases) - len(shipped_files())
    for ft in G.FTYPES:
        cases.append({"k": "current", "t": ft, "d": []})
        for d in G.deviations(ft):
            cases.append({"k": "current", "t": ft, "d": [d.name]})
    ncur = len(cases) - nsynth - len(shipped_files())
    for ft in G.FTYPES:
        for v in FUTURE:
            for sh in FUTURE_SHAPES:
                cases.append({"k": "future", "t": ft, "v": v, "shape": sh})
    shape_crosscheck(ctx.log, ctx.tally)
    ctx.log("%d shipped dumps, %d synthetic old-format files (%d versions), %d current states, %d future-version files" % (
        len(shipped_files()), nsynth, len(versions), ncur, len(cases) - nsynth - ncur - len(shipped_files())))
    ctx.bounds = {
        "shipped_dumps": shipped_files(), "versions": [".".join(map(str, v)) if isinstance(v, tuple) else v for v in versions],
        "flow_types": G.FTYPES, "deviations": ("every single field deviation of the C36 grammar at every version + every pair of core (interacting) field deviations" if thorough else
                       "default flows and core field deviations at every version; every other single field deviation at versions 1.0, 4, 9, 10, 11, 17, 20"),
        "future_versions": [str(v) for v in FUTURE], "future_shapes": FUTURE_SHAPES,
    }
    G.run_cases(one, cases, ctx.tally, block=32)


def replay(case, t: Tally, verbose=False):
    one(case, t)
