"""C19 - ignore_hosts / allow_hosts: excluded connections pass through untouched, others are intercepted.

Engine E (+ differential on segmentation) on the real stack: the real `NextLayer` addon answers
the real `next_layer` hook of the stacks built by the real mode layers (regular proxy after a
CONNECT, transparent, reverse, SOCKS5) inside the real ProxyConnectionHandler on the virtual
loop.  A case is (stack + destination address, first flight of the client: TLS ClientHello with an
SNI / HTTP request with one Host syntax / opaque bytes / nothing because the server speaks first,
rule set, connection strategy, segmentation of the first flight).  The reference decision applies
the rules to {address, SNI, Host as HTTP defines it}.  Observed: which hooks fire after the
destination is known, and the exact bytes arriving at the mock server and client sockets.
"""
from __future__ import annotations

import itertools
import re

from vmc import par
from vmc.drivers import stacks
from vmc.drivers.stacks import world as World
from vmc.refs import http1ref
from vmc.tally import Tally

META = {
    "level": "exploration",
    "technique": "bounded-exhaustive enumeration of (mode stack, destination form, Host/SNI syntax, rule set, strategy, first-flight segmentation) on the real NextLayer addon behind the real mode layers and ConnectionHandler (virtual loop); reference decision from the rules + HTTP's definition of the target host; differential against whole-flight delivery",
    "claim": "within the stated grammar a destination excluded by ignore_hosts/allow_hosts is relayed byte-exactly in both directions without any TLS/HTTP/TCP-flow hook, every other destination is intercepted, a complete first flight always leads to a decision, and the decision equals that of whole-flight delivery for every segmentation (first segments shorter than the 3 bytes needed to recognise TLS excepted)",
    "rule": "a case is (stack, address kind, flight, name, syntax, rules, strategy, cut set); distinct = distinct tuple; non-trivial = a rule set is configured or the flight is cut",
    "assumptions": [
        "intercepted TLS is driven with a pass-through SSL object handed to tls_start_client/tls_start_server (no certificates); only the fact of interception is judged",
        "the CONNECT / SOCKS5 exchange that names the destination is delivered whole; only the first flight after it is segmented",
        "HTTP flights go to port 80 and TLS flights to port 443, so a Host header without a port denotes the connection's port under either reading",
        "for a server that speaks first only the address can be known: such cases use address rules",
    ],
}

MATCH, OTHER, IP = "example.com", "other.test", "198.51.100.7"
RULES = {
    "ign_name": {"ignore_hosts": [r"example\.com"]},
    "ign_port443": {"ignore_hosts": [r":443$"]},
    "ign_ip": {"ignore_hosts": [r"^198\.51\.100\.7:"]},
    "allow_name": {"allow_hosts": [r"example\.com"]},
    "allow_ign": {"allow_hosts": [r"example\.com", r"other\.test"], "ignore_hosts": [r"other\.test"]},
    "none": {},
    # no option set: an addon excludes by SNI the documented way (tls_clienthello: data.ignore_connection = True),
    # which exercises ClientTLSLayer's own pass-through path (the hello it buffered must be replayed)
    "addon_ignore_sni": {},
}
ADDON_IGNORE = "addon_ignore_sni"
# rules anchored on the host:port form (the documented thing patterns are matched against); used with Host values that
# are names / IPv4 / bracketed IPv6 literals, each with and without an explicit port
HOSTPORT_RULES = {
    "ign_v6_port": {"ignore_hosts": [r"^\[2001:db8::1\]:80$"]},
    "allow_v6_port": {"allow_hosts": [r"^\[2001:db8::1\]:80$"]},
    "ign_v4_port": {"ignore_hosts": [r"^192\.0\.2\.9:80$"]},
    "ign_name_port": {"ignore_hosts": [r"example\.com:80$"]},
    "allow_literal_port": {"allow_hosts": [r"^(\[2001:db8::1\]|192\.0\.2\.9):80$"]},
}
RULES.update(HOSTPORT_RULES)


def make_policy(case):
    if case["rules"] != ADDON_IGNORE:
        return stacks.null_tls_policy

    def policy(name, data, world):
        stacks.null_tls_policy(name, data, world)
        if name == "tls_clienthello" and data.client_hello.sni == MATCH:
            data.ignore_connection = True

    return policy
STACKS = [("regular", "match"), ("regular", "other"), ("regular", "ip"), ("transparent", "ip"), ("reverse", "match"), ("reverse", "other"),
          ("socks5", "match"), ("socks5", "other"), ("socks5", "ip")]
HTTP_SYNTAX = ["default", "no_ows", "tab_trailing_space", "upper_name", "upper_value", "second_position", "last_position", "explicit_port",
               "absolute_same_host", "absolute_other_host", "bare_lf", "empty_host_then_referer", "http10_no_host"]
INTERCEPT_HOOKS = {"tls_clienthello", "tls_start_client", "tls_established_client", "requestheaders", "request", "responseheaders", "response",
                   "tcp_start", "tcp_message", "tcp_end", "tcp_error", "error", "http_connect", "websocket_start"}
M2, S1, S2, BANNER = b"<client-more>", b"<server-one>", b"<server-two>", b"220 mail.example ESMTP\r\n"
OPAQUE = b"\x00\x01\x02 opaque protocol bytes\xff"


V6_LITERAL, V4_LITERAL = "[2001:db8::1]", "192.0.2.9"  # Host header values that are address literals


def host_of(kind):
    return {"match": MATCH, "other": OTHER, "ip": IP, "none": None, "v6": V6_LITERAL, "v4": V4_LITERAL}[kind]


def http_flight(name, syntax):
    h = host_of(name).encode()
    o = (OTHER if name == "match" else MATCH).encode()
    rl = b"GET / HTTP/1.1"
    ua = b"User-Agent: x"
    if syntax == "default":
        lines = [rl, b"Host: " + h, ua]
    elif syntax == "no_ows":
        lines = [rl, b"Host:" + h, ua]
    elif syntax == "tab_trailing_space":
        lines = [rl, b"host:\t" + h + b" ", ua]
    elif syntax == "upper_name":
        lines = [rl, b"HOST: " + h, ua]
    elif syntax == "upper_value":
        lines = [rl, b"Host: " + h.upper(), ua]
    elif syntax == "second_position":
        lines = [rl, b"X-First: 1", b"Host: " + h, ua]
    elif syntax == "last_position":
        lines = [rl, b"X-First: 1", ua, b"Host: " + h]
    elif syntax == "explicit_port":
        lines = [rl, b"Host: " + h + b":80", ua]
    elif syntax == "absolute_same_host":
        lines = [b"GET http://" + h + b"/ HTTP/1.1", b"Host: " + h, ua]
    elif syntax == "absolute_other_host":
        # RFC 9112 3.2.2: the authority of an absolute-form target is the request's host; Host is ignored
        lines = [b"GET http://" + h + b"/ HTTP/1.1", b"Host: " + o, ua]
    elif syntax == "bare_lf":
        return b"\n".join([rl, b"Host: " + h, ua]) + b"\n\n"
    elif syntax == "empty_host_then_referer":
        # the Host field is present and empty; `name` only appears in an unrelated field
        lines = [rl, b"Host: ", b"Referer: http://" + h + b"/", ua]
    elif syntax == "http10_no_host":
        lines = [b"GET / HTTP/1.0", ua]
    else:
        raise ValueError(syntax)
    return b"\r\n".join(lines) + b"\r\n\r\n"


def http_defined_host(flight):
    """the target host of the first request as HTTP defines it (authority of an absolute-form target, else Host)"""
    msgs, verdict = http1ref.parse_requests(flight)
    if not msgs:
        return None
    m = msgs[0]
    target = m["start"][1]
    mo = re.match(rb"^[A-Za-z][A-Za-z0-9+.-]*://([^/?#]*)", target)
    if mo:
        return mo.group(1).decode("latin-1") or None
    hosts = [v for n, v in m["fields"] if n.lower() == b"host"]
    if len(hosts) != 1 or not hosts[0]:
        return None
    return hosts[0].decode("latin-1")


def refragment(hello, splits):
    """the same ClientHello handshake message carried in len(splits)+1 TLS records (RFC 8446 5.1: handshake messages
    may be fragmented over several records); -> (bytes, offsets of the record boundaries)"""
    ver, msg = hello[1:3], hello[5:]
    out, bounds, prev = b"", [], 0
    for c in list(splits) + [len(msg)]:
        piece = msg[prev:c]
        prev = c
        out += b"\x16" + ver + len(piece).to_bytes(2, "big") + piece
        bounds.append(len(out))
    return out, bounds[:-1]


def flight_bytes(case):
    fl = case["flight"]
    if fl == "tls":
        hello = stacks.client_hello(host_of(case["name"]))
        return refragment(hello, case["frag"])[0] if case.get("frag") else hello
    if fl == "http":
        return http_flight(case["name"], case["syntax"])
    if fl == "opaque":
        return OPAQUE
    return b""  # server_first


def port_of(case):
    return 443 if case["flight"] == "tls" else 25 if case["flight"] == "server_first" else 80


def candidates(case, flight):
    port = port_of(case)
    c = ["%s:%d" % (host_of(case["addr"]), port)]
    if case["flight"] == "tls" and host_of(case["name"]):
        c.append("%s:%d" % (host_of(case["name"]), port))
    if case["flight"] == "http":
        h = http_defined_host(flight)
        if h:
            c.append(h if re.search(r":\d+$", h) else "%s:%d" % (h, port))
    return c


def ref_excluded(rules, cands):
    if rules == ADDON_IGNORE:
        return any(c.startswith(MATCH + ":") for c in cands[1:])  # the SNI candidate
    allow = RULES[rules].get("allow_hosts", [])
    ignore = RULES[rules].get("ignore_hosts", [])
    if allow and not any(re.search(p, c, re.IGNORECASE) for p in allow for c in cands):
        return True
    if ignore and any(re.search(p, c, re.IGNORECASE) for p in ignore for c in cands):
        return True
    return False


# ------------------------------------------------------------------ enumeration
def base_cases(thorough):
    out = []
    for stack, addr in STACKS:
        for rules in RULES:
            for strategy in ("eager", "lazy"):
                b = {"stack": stack, "addr": addr, "rules": rules, "strategy": strategy}
                for name in ("match", "other", "none"):
                    out.append(dict(b, flight="tls", name=name, syntax="-"))
                for name in ("match", "other"):
                    for syn in HTTP_SYNTAX:
                        if syn == "http10_no_host" and name == "other":
                            continue
                        out.append(dict(b, flight="http", name=name, syntax=syn))
                out.append(dict(b, flight="opaque", name="none", syntax="-"))
                if strategy == "eager":
                    out.append(dict(b, flight="server_first", name="none", syntax="-"))
    out = [c for c in out if c["rules"] not in HOSTPORT_RULES and (c["rules"] != ADDON_IGNORE or c["flight"] == "tls")]
    # Host header forms x rules anchored on host:port
    for stack, addr in STACKS:
        for rules in list(HOSTPORT_RULES) + ["ign_name", "allow_name"]:
            for strategy in ("eager", "lazy"):
                for name in ("v6", "v4", "match"):
                    for syn in ("default", "explicit_port", "second_position", "upper_name", "tab_trailing_space"):
                        out.append({"stack": stack, "addr": addr, "rules": rules, "strategy": strategy, "flight": "http", "name": name, "syntax": syn})
    return out


def zone_positions(case, flight):
    n = len(flight)
    pos = set()
    if case["flight"] == "http":
        v = flight.find(b"HTTP/")
        eol = flight.find(b"\n")
        hl = flight.lower().find(b"host:")
        hend = flight.find(b"\n", hl) if hl >= 0 else -1
        for p in (1, 2, 3, 4, v - 1, v, v + 5, eol - 1, eol, eol + 1, hl, hl + 3, hl + 5, hl + 6, hl + 9, hend - 1, hend, hend + 1, n - 4, n - 2, n - 1):
            if 0 < p < n:
                pos.add(p)
    elif case["flight"] == "tls":
        s = flight.find(host_of(case["name"]).encode()) if host_of(case["name"]) else -1
        for p in (1, 2, 3, 4, 5, 6, 9, 10, 43, 44, 76, s - 2, s, s + 3, s + len(host_of(case["name"]) or ""), n // 2, n - 2, n - 1):
            if 0 < p < n:
                pos.add(p)
    else:
        for p in (1, 2, 3, 4, n - 1):
            if 0 < p < n:
                pos.add(p)
    return sorted(pos)


def cut_sets(case, flight, thorough):
    n = len(flight)
    if n < 2:
        return []
    zp = zone_positions(case, flight)
    res, seen = [], set()

    def add(c):
        c = tuple(sorted(set(c)))
        if c and c not in seen:
            seen.add(c)
            res.append(c)

    if case["flight"] != "tls":
        singles = range(1, n)
    elif thorough:
        singles = range(1, n)
    else:
        singles = zp
    for p in singles:
        add((p,))
    add(tuple(range(1, n)))  # 1-byte segments
    if thorough:
        for c in itertools.combinations(zp, 2):
            add(c)
    else:
        for c in itertools.combinations(zp[:6] + zp[-2:], 2):
            add(c)
    return res


def segmented_bases(thorough):
    """the base cases whose first flight is also delivered in every segmentation of the bound"""
    out = []
    syntaxes = ["default", "second_position"] + (["tab_trailing_space", "last_position", "explicit_port", "absolute_same_host", "upper_value"] if thorough else [])
    for stack, addr in STACKS:
        for rules in (("ign_name", "allow_name", "allow_ign") if not thorough else ("ign_name", "allow_name", "allow_ign", "ign_port443", "none")):
            for strategy in (("eager",) if not thorough else ("eager", "lazy")):
                b = {"stack": stack, "addr": addr, "rules": rules, "strategy": strategy}
                for name in ("match", "other"):
                    out.append(dict(b, flight="tls", name=name, syntax="-"))
                    for syn in syntaxes:
                        out.append(dict(b, flight="http", name=name, syntax=syn))
                if thorough:
                    out.append(dict(b, flight="opaque", name="none", syntax="-"))
        for strategy in (("eager",) if not thorough else ("eager", "lazy")):
            out.append({"stack": stack, "addr": addr, "rules": ADDON_IGNORE, "strategy": strategy, "flight": "tls", "name": "match", "syntax": "-"})
    return out


def fragmented_cases(thorough):
    """TLS *record* fragmentation of the ClientHello (independent of TCP segmentation): every split of the handshake
    message over two records (thorough) / at the zone offsets (quick), and over three records at pairs of zone offsets,
    including last fragments of 1-3 bytes.  Each is delivered in one segment and one record per segment."""
    out = []
    for stack, addr in STACKS:
        for rules, names in (("ign_name", ("match", "other")), ("allow_name", ("match", "other")), (ADDON_IGNORE, ("match",))):
            for name in names:
                hello = stacks.client_hello(host_of(name))
                n = len(hello) - 5
                s = hello.find(host_of(name).encode()) - 5
                z2 = sorted({p for p in (1, 2, 3, 4, 5, 6, s - 1, s, s + 4, n // 2, n - 5, n - 4, n - 3, n - 2, n - 1) if 0 < p < n})
                z3 = sorted({p for p in (1, 3, 4, s, n - 4, n - 3, n - 2, n - 1) if 0 < p < n})
                frags = [(p,) for p in (range(1, n) if thorough else z2)]
                frags += list(itertools.combinations(z2 if thorough else z3, 2))
                for fr in frags:
                    out.append({"stack": stack, "addr": addr, "rules": rules, "strategy": "eager", "flight": "tls", "name": name,
                                "syntax": "-", "frag": list(fr)})
    return out


# ------------------------------------------------------------------ one run
def setup(case):
    """-> (mode string, world kwargs, bytes to send first, expected reply prefix to the client)"""
    stack, port = case["stack"], port_of(case)
    host = host_of(case["addr"])
    if stack == "regular":
        hp = ("%s:%d" % (host, port)).encode()
        return "regular", {}, b"CONNECT " + hp + b" HTTP/1.1\r\nHost: " + hp + b"\r\n\r\n", b"HTTP/1.1 200 Connection established\r\n\r\n"
    if stack == "transparent":
        return "transparent", {"original_dst": (host, port)}, b"", b""
    if stack == "reverse":
        scheme = "https" if case["flight"] == "tls" else "tcp" if case["flight"] in ("opaque", "server_first") else "http"
        return "reverse:%s://%s:%d/" % (scheme, host, port), {}, b"", b""
    if stack == "socks5":
        if case["addr"] == "ip":
            a = b"\x01" + bytes(int(x) for x in host.split("."))
        else:
            a = b"\x03" + bytes([len(host)]) + host.encode()
        return "socks5", {}, b"\x05\x01\x00" + b"\x05\x01\x00" + a + bytes([port >> 8, port & 255]), b"\x05\x00\x05\x00\x00\x01\x00\x00\x00\x00\x00\x00"
    raise ValueError(stack)


def execute(case, cuts=()):
    mode, kw, pre, reply = setup(case)
    opts = dict(RULES[case["rules"]], connection_strategy=case["strategy"])
    flight = flight_bytes(case)
    w = World(mode=mode, opts=opts, auto_connect=True, policy=make_policy(case), **kw)
    # with the addon-level exclusion the decision itself is taken in the tls_clienthello hook
    hooks_watched = INTERCEPT_HOOKS - {"tls_clienthello"} if case["rules"] == ADDON_IGNORE else INTERCEPT_HOOKS
    obs = {"crash": None}
    try:
        try:
            w.start()
            if pre:
                w.client_send(pre)
            h0 = len(w.hooks)
            obs["setup_ok"] = w.client.w.data == reply and not w.client.w.closed
            if case["flight"] == "server_first":
                for e in w.servers:
                    if e.state == "open":
                        w.server_send(e, BANNER)
            prev = 0
            for c in list(cuts) + [len(flight)]:
                if c > prev:
                    w.client_send(flight[prev:c])
                prev = c
            # ---- decision point: the complete first flight has been delivered
            after = [n for n, _ in w.hooks[h0:]]
            fired = [n for n in after if n in hooks_watched]
            if case["rules"] == ADDON_IGNORE and not ref_excluded(ADDON_IGNORE, candidates(case, flight)):
                fired = [n for n in after if n in INTERCEPT_HOOKS]
            srv = b"".join(e.w.data for e in w.servers)
            to_client = w.client.w.data[len(reply):]
            if fired:
                decision = "intercepted"
            elif (flight and srv == flight) or (case["flight"] == "server_first" and to_client == BANNER):
                decision = "passthrough"
            else:
                decision = "undecided"
            obs.update(decision=decision, fired=fired, srv_at_decision=srv, client_at_decision=to_client)
            # ---- relay phase (only meaningful for a pass-through): both directions, more than one segment each
            if decision == "passthrough":
                for e in w.servers:
                    if e.state == "open":
                        w.server_send(e, S1)
                w.client_send(M2)
                for e in w.servers:
                    if e.state == "open":
                        w.server_send(e, S2)
                after = [n for n, _ in w.hooks[h0:]]
                obs["fired_later"] = [n for n in after if n in hooks_watched]
                obs["srv_final"] = [e.w.data for e in w.servers]
                obs["client_final"] = w.client.w.data[len(reply):]
            obs["finished"] = w.close_out()
            obs["errors"] = list(w.errors)
        except KeyboardInterrupt:
            raise
        except BaseException as e:
            obs["crash"] = repr(e)[:300]
    finally:
        w.dispose()
    return obs


def first_cut_zone(case, flight, cuts):
    if not cuts:
        return "whole"
    c = cuts[0]
    if case["flight"] == "http":
        v = flight.find(b"HTTP/")
        eol = flight.find(b"\n")
        hl = flight.lower().find(b"\nhost:")
        hend = flight.find(b"\n", hl + 1) if hl >= 0 else -1
        if c < v + 5:
            return "request-line-before-version"
        if c <= eol:
            return "request-line-after-version"
        if hl >= 0 and c <= hl:
            return "headers-before-host"
        if hl >= 0 and c <= hend:
            return "inside-host-line"
        return "after-host-line"
    if case["flight"] == "tls":
        if c < 3:
            return "tls-first-segment-under-3-bytes"
        if c < 5:
            return "tls-record-header"
        return "tls-hello-body"
    return "opaque"


def features(case, flight, cuts, excluded, cands):
    f = {"stack": case["stack"], "addr": case["addr"], "flight": case["flight"], "name": case["name"], "syntax": case["syntax"],
         "rules": case["rules"], "strategy": case["strategy"], "expect": "excluded" if excluded else "intercepted",
         "first_cut": first_cut_zone(case, flight, cuts)}
    if case["flight"] == "http":
        f["line_end"] = "lf" if case["syntax"] == "bare_lf" else "crlf"
    if case["flight"] == "tls":
        fr = case.get("frag") or []
        f["tls_records"] = len(fr) + 1
        f["last_fragment"] = "whole" if not fr else ("under-4-bytes" if len(flight) - 5 * (len(fr) + 1) - fr[-1] < 4 else "4-bytes-or-more")
    return f


def judge(case, cuts, obs, whole, t: Tally):
    flight = flight_bytes(case)
    cands = candidates(case, flight)
    excluded = ref_excluded(case["rules"], cands)
    f = features(case, flight, cuts, excluded, cands)
    rec = {"case": case, "cuts": list(cuts)}
    t.case(rec if (cuts and len(cuts) == 2) or (not cuts and case["rules"] != "none" and case["flight"] == "http" and case["syntax"] == "second_position") else None,
           nontrivial=case["rules"] != "none" or bool(cuts), key=[sorted(case.items()), list(cuts)])
    if obs.get("crash") or obs.get("errors") or not obs.get("finished") or not obs.get("setup_ok"):
        t.bad("decision_is_made", dict(f, internal_error=True), rec, "no internal error; CONNECT/SOCKS exchange answered",
              {k: obs.get(k) for k in ("crash", "errors", "finished", "setup_ok")})
        return
    t.outcome([case["stack"], case["flight"], excluded, obs["decision"], sorted(set(obs["fired"]))])

    if cuts:
        # differential clause only: absolute clauses are judged on the whole-flight run of the same case
        if f["first_cut"] == "tls-first-segment-under-3-bytes":
            t.ok("below_documented_tls_minimum_not_judged")
            return
        same = obs["decision"] == whole["decision"]
        t.judge("decision_segmentation_invariant", same, f, rec, {"whole": whole["decision"], "fired": whole["fired"]},
                {"segmented": obs["decision"], "fired": obs["fired"]})
        if obs["decision"] == "passthrough":
            judge_relay(case, flight, obs, f, rec, t)
        return

    # ---- whole-flight delivery: absolute clauses
    t.judge("decision_is_made", obs["decision"] != "undecided", f, rec, "pass-through or interception once the first flight is complete",
            {"fired": obs["fired"], "server_got": obs["srv_at_decision"][:80], "client_got": obs["client_at_decision"][:80]})
    if obs["decision"] == "undecided":
        return
    if excluded:
        t.judge("excluded_never_intercepted", obs["decision"] == "passthrough" and not obs.get("fired_later"), f, rec,
                {"candidates": cands, "hooks": []}, {"decision": obs["decision"], "hooks": obs["fired"] + obs.get("fired_later", [])})
        if obs["decision"] == "passthrough":
            judge_relay(case, flight, obs, f, rec, t)
    else:
        t.judge("others_intercepted", obs["decision"] == "intercepted", f, rec, {"candidates": cands, "decision": "intercepted"},
                {"decision": obs["decision"], "server_got": obs["srv_at_decision"][:80]})


def judge_relay(case, flight, obs, f, rec, t):
    want_srv = flight + M2
    want_cli = (BANNER if case["flight"] == "server_first" else b"") + S1 + S2
    got_srv = obs["srv_final"]
    ok = len(got_srv) == 1 and got_srv[0] == want_srv and obs["client_final"] == want_cli
    t.judge("bytes_relayed_unmodified_in_order_both_ways", ok, f, rec, {"to_server": want_srv[-60:], "to_client": want_cli},
            {"to_server": [x[-60:] for x in got_srv], "to_client": obs["client_final"][-80:], "connections": len(got_srv)})


def run_item(item, t: Tally):
    case, cutlist = item
    whole = execute(case, ())
    for cuts in cutlist:
        obs = whole if not cuts else execute(case, cuts)
        judge(case, tuple(cuts), obs, whole, t)


def chunk_fn(chunk):
    t = Tally()
    for item in chunk:
        run_item(item, t)
    return t


def work_items(thorough):
    items = [(c, [()]) for c in base_cases(thorough)]
    per = 40
    for c in segmented_bases(thorough):
        cs = cut_sets(c, flight_bytes(c), thorough)
        for i in range(0, len(cs), per):
            items.append((c, cs[i:i + per]))
    for c in fragmented_cases(thorough):
        bounds = refragment(stacks.client_hello(host_of(c["name"])), c["frag"])[1]
        items.append((c, [(), tuple(bounds)]))
    return items


def all_cases(thorough):  # for scratch drivers
    return work_items(thorough)


def run_case(item, t, verbose=False):
    run_item(item, t)


def run(ctx):
    for n in (MATCH, OTHER, None):
        stacks.client_hello(n)  # built once in the parent: identical bytes in every worker
    items = work_items(ctx.thorough)
    runs = sum(len(c) for _, c in items)
    ctx.bounds = {
        "stacks": ["%s/%s" % s for s in STACKS], "rules": {k: v for k, v in RULES.items()}, "flights": ["tls(sni match/other/none)", "http(host match/other) x syntax", "opaque", "server_first"],
        "http_syntax": HTTP_SYNTAX, "strategies": ["eager", "lazy"], "runs": runs,
        "tls_record_fragmentation": ("ClientHello over 2 records at every offset, over 3 records at every pair of 15 zone offsets" if ctx.thorough
                                     else "ClientHello over 2 records at 15 zone offsets (record start, SNI, last 1-5 bytes), over 3 records at every pair of 8 zone offsets") + "; one segment and one record per segment",
        "segmentation": ("every single cut, 1-byte segments, every pair of zone cuts (request line, Host line, record header, SNI, tail)" if ctx.thorough
                         else "every single cut (HTTP) / zone cuts (TLS), 1-byte segments, pairs of the first zone cuts"),
    }
    ctx.log("%d work items, %d runs" % (len(items), runs))
    par.pmap_tally(chunk_fn, items, ctx.tally, nchunks=min(len(items), 384))


def replay(rec, t, verbose=False):
    case, cuts = rec["case"], tuple(rec["cuts"])
    whole = execute(case, ())
    obs = whole if not cuts else execute(case, cuts)
    if verbose:
        fl = flight_bytes(case)
        print("flight", fl[:200])
        print("candidates", candidates(case, fl), "excluded by reference:", ref_excluded(case["rules"], candidates(case, fl)))
        print("whole   ", {k: v for k, v in whole.items() if k not in ("srv_final",)})
        print("observed", {k: v for k, v in obs.items() if k not in ("srv_final",)})
    judge(case, cuts, obs, whole, t)
