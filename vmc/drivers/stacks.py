"""Helpers shared by the full-stack checks C19/C20/C21/C24 (wrappers around `World`; world.py is not edited).

* `world(...)`  - World() with the process-global `mitmproxy.ctx` pointed at the Master that is about to be
  reused *before* World resets its options.  World caches one Master per `master_key`; when a process
  alternates between keys, `options.reset()` of the cached Master runs the addons' `configure()` while
  `mitmproxy.ctx.options` still belongs to the previous World's Master ("No such option: proxyauth").
* `NullSSL`    - stands in for the pyOpenSSL `SSL.Connection` an addon hands to `tls_start_client` /
  `tls_start_server`: the handshake completes at once and application data is passed through unchanged, so
  the real ClientTLSLayer / ServerTLSLayer / NextLayer run (TLS flags, SNI, hooks, tunnel states) while the
  bytes inside the "TLS" tunnel stay observable.  The client side swallows exactly the ClientHello.
* `client_hello(sni)` - bytes of a real TLS ClientHello produced by stdlib `ssl` (not by mitmproxy / pyOpenSSL).
"""
from __future__ import annotations

import ssl

import mitmproxy.ctx as _mctx
from OpenSSL import SSL

from vmc.drivers import world as _world


def prime_ctx(master_key, addons=()):
    key = master_key if master_key is not None else ("default" if not addons else None)
    cached = _world._MASTERS.get(key) if key is not None else None
    if cached is not None:
        _mctx.master = cached[0]
        _mctx.options = cached[0].options


_N_WORLDS = 0
GC_EVERY = 200


def world(*a, **kw):
    """World(...) with ctx priming, plus a full garbage collection every GC_EVERY worlds: World.close_out() runs
    gc.collect(1) while the World is still referenced, which promotes its (cyclic) object graph to the oldest
    generation; after dispose() that graph is garbage only a full collection frees.  Left alone a worker's heap grows
    by ~100 objects per execution and executions slow down four-fold within 10 000 runs (measured)."""
    global _N_WORLDS
    _N_WORLDS += 1
    if _N_WORLDS % GC_EVERY == 0:
        import gc

        gc.collect()
    prime_ctx(kw.get("master_key"), kw.get("addons") or ())
    return _world.World(*a, **kw)


HELLO = b"\x16<null-tls-client-hello>\n"  # what mitmproxy-as-TLS-client sends first
DONE = b"\x16<null-tls-server-done>\n"  # what the TLS server answers; after it, data flows in the clear


class NullSSL:
    """identity 'cipher' with the part of the SSL.Connection interface that TLSLayer uses.

    Towards a server (server_side=False) the handshake is one round trip: HELLO out, DONE in - the real
    ServerTLSLayer relies on the first do_handshake() wanting to read.  Towards the client (server_side=True)
    the buffered ClientHello is swallowed and DONE is sent."""

    def __init__(self, server_side: bool, alpn: bytes = b""):
        self.server_side = server_side  # True: mitmproxy is the TLS server (client connection)
        self.inbound = bytearray()
        self.outbound = bytearray()
        self.done = False
        self.sent = False
        self.alpn = alpn
        self.hello = b""

    # -- BIO side
    def bio_write(self, data):
        self.inbound.extend(data)
        return len(data)

    def bio_read(self, n):
        if not self.outbound:
            raise SSL.WantReadError()
        out = bytes(self.outbound[:n])
        del self.outbound[:n]
        return out

    def do_handshake(self):
        if self.done:
            return
        if self.server_side:
            # what arrived so far is the ClientHello (ClientTLSLayer buffered it until it parsed)
            self.hello = bytes(self.inbound)
            self.inbound.clear()
            self.outbound.extend(DONE)
            self.done = True
            return
        if not self.sent:
            self.outbound.extend(HELLO)
            self.sent = True
        if bytes(self.inbound[:len(DONE)]) == DONE:
            del self.inbound[:len(DONE)]
            self.done = True
            return
        raise SSL.WantReadError()

    # -- application side
    def recv(self, n):
        if not self.inbound:
            raise SSL.WantReadError()
        out = bytes(self.inbound[:n])
        del self.inbound[:n]
        return out

    def sendall(self, data):
        self.outbound.extend(data)

    def get_shutdown(self):
        return 0

    # -- post-handshake attributes
    def get_peer_cert_chain(self):
        return []

    def get_peer_certificate(self):
        return None

    def get_alpn_proto_negotiated(self):
        return self.alpn

    def get_cipher_name(self):
        return "NULL-IDENTITY"

    def get_protocol_version_name(self):
        return "TLSv1.3"


def null_tls_policy(name, data, world):
    """addon behaviour: provide the NullSSL object where TlsConfig would provide an OpenSSL connection"""
    if name == "tls_clienthello":
        # what the stock TlsConfig addon decides here (tlsconfig.py: tls_clienthello)
        data.establish_server_tls_first = bool(data.context.server.tls and world.options.connection_strategy == "eager")
    elif name == "tls_start_client":
        data.ssl_conn = NullSSL(True)
    elif name == "tls_start_server":
        data.ssl_conn = NullSSL(False)


class TunnelPeer:
    """scripted upstream side for every mock server socket of a World: answers a null-TLS HELLO with DONE,
    a CONNECT request with an empty 200, any other complete HTTP/1 request with `response`.  Keeps, per
    socket, the ordered list of what it read: ("tls",) | ("connect", msg) | ("request", msg) with the nesting
    that was in force (`tls` = number of TLS layers entered, `tunnel` = number of CONNECT tunnels entered)."""

    def __init__(self, response=b"HTTP/1.1 200 OK\r\nContent-Length: 2\r\n\r\nok", connect_response=b"HTTP/1.1 200 OK\r\n\r\n"):
        from vmc.refs import http1ref

        self._ref = http1ref
        self.response = response
        self.connect_response = connect_response
        self.state: dict = {}  # id(end) -> {"pos": int, "tls": int, "tunnel": int, "events": [...]}

    def _st(self, e):
        return self.state.setdefault(id(e), {"pos": 0, "tls": 0, "tunnel": 0, "events": [], "address": e.address, "junk": b""})

    def pump(self, w, limit=100):
        for _ in range(limit):
            progressed = False
            for e in list(w.servers):
                if e.state != "open" or e.r.eof:
                    continue
                st = self._st(e)
                while True:
                    data = e.w.data
                    rest = data[st["pos"]:]
                    if not rest:
                        break
                    if rest.startswith(HELLO):
                        st["pos"] += len(HELLO)
                        st["tls"] += 1
                        st["events"].append({"kind": "tls", "tls": st["tls"], "tunnel": st["tunnel"]})
                        w.server_send(e, DONE)
                        progressed = True
                        continue
                    if HELLO.startswith(rest):
                        break  # partial marker
                    try:
                        msg, newpos = self._ref._one(data, st["pos"], True)
                    except self._ref.Stop as s:
                        if s.verdict != "incomplete":
                            st["junk"] = rest[:200]
                        break
                    ev = {"kind": "connect" if msg["start"][0] == b"CONNECT" else "request", "msg": msg,
                          "tls": st["tls"], "tunnel": st["tunnel"]}
                    st["events"].append(ev)
                    st["pos"] = newpos
                    if ev["kind"] == "connect":
                        st["tunnel"] += 1
                        w.server_send(e, self.connect_response)
                    else:
                        w.server_send(e, self.response)
                    progressed = True
            if not progressed:
                break

    def connections(self, w):
        """[(address, events, unparsed bytes)] for every upstream socket, in connect order"""
        out = []
        for e in w.servers:
            st = self._st(e)
            out.append((tuple(e.address), st["events"], e.w.data[st["pos"]:]))
        return out


_HELLO_CACHE: dict = {}


def client_hello(sni: str | None, alpn=None) -> bytes:
    """a complete first flight (one TLS record with a ClientHello) from the stdlib ssl client"""
    key = (sni, tuple(alpn or ()))
    if key not in _HELLO_CACHE:
        ctx = ssl.SSLContext(ssl.PROTOCOL_TLS_CLIENT)
        ctx.check_hostname = False
        ctx.verify_mode = ssl.CERT_NONE
        if alpn:
            ctx.set_alpn_protocols(list(alpn))
        inc, out = ssl.MemoryBIO(), ssl.MemoryBIO()
        obj = ctx.wrap_bio(inc, out, server_hostname=sni)
        try:
            obj.do_handshake()
        except ssl.SSLWantReadError:
            pass
        _HELLO_CACHE[key] = out.read()
    return _HELLO_CACHE[key]
