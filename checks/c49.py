"""C49 - mitmdump output carries no control sequences taken from traffic.

Engine E: the real `Dumper` addon writes to an `io.StringIO`, once with styling off
and once with styling on.  Every dumper hook is called with a flow of the matching
type in which exactly one attacker-controlled field carries a control-character
payload (wrapped in the marker MK..KM so that "the field was echoed" is observable),
crossed with flow_detail 0-4, showhost, and - for message bodies - every content view
and a list of content types.  DNS flows are produced by the real `DNSMessage.unpack`
from wire bytes, so names and records are what traffic can really deliver.
"""
from __future__ import annotations

import io
import os
import re
import unicodedata

from mitmproxy import dns
from mitmproxy import flow as mflow
from mitmproxy import http
from mitmproxy import tcp
from mitmproxy import udp
from mitmproxy import websocket
from mitmproxy.addons import dumper
from mitmproxy.test import taddons
from mitmproxy.test import tflow
from wsproto.frame_protocol import Opcode

from vmc import par
from vmc.refs import dnsref
from vmc.tally import Tally

META = {
    "level": "exploration",
    "technique": "bounded-exhaustive enumeration (hook x flow type x field x control payload x flow_detail x showhost x content view x content type) on the real Dumper addon writing to StringIO with styling off and on; output scanned for Unicode category Cc",
    "claim": "for every dumper hook and every listed attacker-controlled field, no control character other than TAB/LF/CR from the traffic reaches the text mitmdump writes, and styling adds nothing but SGR sequences",
    "rule": "a case is (hook, field, payload token, byte encoding, flow_detail, showhost, content view, content type, variant); distinct = distinct tuple; non-trivial = the flow object really carries the payload in that field and the marker around the payload appears in the output (the field is echoed at that detail level)",
    "assumptions": [
        "fields are set on flow objects directly (HTTP, WebSocket, TCP, UDP) - the statement names these fields as attacker-controlled; DNS flows come from the real DNSMessage.unpack of wire bytes",
        "client/server addresses and http_version are not varied (numeric addresses / validated by the parsers); SNI is only echoed inside error messages, which are covered as a field",
        "the output stream is a StringIO: encoding errors of a real terminal stream (lone surrogates) are outside the statement",
        "control character = Unicode general category Cc (C0, DEL, C1) except TAB, LF, CR",
    ],
}

SGR = re.compile(r"\x1b\[[0-9;]*m")

# ---------------------------------------------------------------------------
# payloads

BASE_TOKENS = {
    "plain": ("x", "none"),
    "cr": ("a\rb", "none"),
    "esc": ("\x1b[31m", "c0"),
    "osc": ("\x1b]0;t\x07", "c0"),
    "bel": ("\x07", "c0"),
    "bs": ("\x08", "c0"),
    "nul": ("\x00", "c0"),
    "del": ("\x7f", "del"),
    "csi": ("\u009b31m", "c1"),
    "nel": ("\u0085", "c1"),
}


def all_tokens():
    toks = dict(BASE_TOKENS)
    for cp in list(range(0, 32)) + [127] + list(range(128, 160)):
        if chr(cp) in "\t\n\r":
            cls = "none"
        else:
            cls = "c0" if cp < 32 else ("del" if cp == 127 else "c1")
        toks["u%04x" % cp] = (chr(cp), cls)
    return toks


TOKS = all_tokens()
QUICK_TOKENS = list(BASE_TOKENS)
THOROUGH_TOKENS = list(TOKS)


def payload(case):
    s = "MK" + TOKS[case["tok"]][0] + "KM"
    b = s.encode("utf-8" if case["enc"] == "utf8" else "latin-1")
    return s, b


# ---------------------------------------------------------------------------
# grammar

HOOK_FIELDS = {
    "response": ["http_method", "http_path", "http_host", "req_hname", "req_hvalue", "resp_hname", "resp_hvalue",
                 "req_trailer", "resp_trailer", "resp_reason", "req_body", "resp_body"],
    "error": ["http_method", "http_path", "req_hvalue", "resp_reason", "error_msg", "resp_body"],
    "http_connect_error": ["http_authority", "http_host", "error_msg"],
    "websocket_message": ["ws_path", "ws_text", "ws_binary"],
    "websocket_end": ["ws_close_reason", "ws_path"],
    "tcp_message": ["tcp_payload"],
    "udp_message": ["udp_payload"],
    "tcp_error": ["tcp_error_msg"],
    "udp_error": ["udp_error_msg"],
    "dns_response": ["dns_qname", "dns_txt", "dns_cname", "dns_ns", "dns_ptr", "dns_https_target", "dns_unknown_rdata", "dns_bad_a"],
    "dns_error": ["dns_qname", "error_msg"],
}
BODY_FIELDS = {"req_body", "resp_body", "ws_text", "ws_binary", "tcp_payload", "udp_payload"}
STR_FIELDS = {"error_msg", "ws_close_reason", "tcp_error_msg", "udp_error_msg"}
HTTP_HOOKS = {"response", "error", "http_connect_error"}
VARIANTS = {
    "response": ["h1", "h2"],
    "error": ["with-response", "no-response"],
    "websocket_end": ["1000-client", "1001-server", "1005-client", "1006-server", "1002-client", "4000-server"],
    "tcp_message": ["plain", "quic", "from-server"],
    "udp_message": ["plain", "quic"],
}
CTYPES = [None, "text/plain", "text/html", "application/json", "application/xml", "text/css", "application/javascript",
          "application/x-www-form-urlencoded", "multipart/form-data; boundary=b", "image/png", "application/octet-stream",
          "application/grpc", "application/dns-message", "application/x-protobuf"]


def views():
    from mitmproxy import contentviews
    return contentviews.registry.available_views()


def cases(tier):
    thorough = tier == "thorough"
    toks = THOROUGH_TOKENS if thorough else QUICK_TOKENS
    out = []
    vws = views()
    for hook, fields in HOOK_FIELDS.items():
        for field in fields:
            for variant in VARIANTS.get(hook, ["-"]):
                if hook == "response" and variant == "h2" and field not in ("http_path", "resp_reason", "resp_hvalue", "resp_body"):
                    continue
                for tok in toks:
                    encs = ["utf8"]
                    if field not in STR_FIELDS and not field.startswith("dns_") and TOKS[tok][1] == "c1":
                        encs.append("latin1")
                    single = tok not in BASE_TOKENS  # per-code-point tokens (thorough): the two detail levels that echo least / most
                    for enc in encs:
                        for detail in ((1, 4) if single else range(5)):
                            for showhost in ((False, True) if hook in HTTP_HOOKS and (not single or field in ("http_host", "http_authority")) else (False,)):
                                base = {"hook": hook, "field": field, "variant": variant, "tok": tok, "enc": enc,
                                        "detail": detail, "showhost": showhost, "view": "auto", "ctype": None}
                                out.append(base)
                                if field in BODY_FIELDS and detail >= 3 and not showhost and variant == VARIANTS.get(hook, ["-"])[0]:
                                    if (thorough and not single) or tok in ("esc", "csi", "nul", "plain"):
                                        for v in vws:
                                            if v != "auto":
                                                out.append(dict(base, view=v))
                                    if field in ("req_body", "resp_body") and ((thorough and not single) or tok in ("esc", "csi", "del")):
                                        for ct in CTYPES[1:]:
                                            out.append(dict(base, ctype=ct))
    return out


# ---------------------------------------------------------------------------
# flows

def set_header(headers, name: bytes, value: bytes):
    headers.fields = tuple(headers.fields) + ((name, value),)


def dns_flow(case, b):
    """request/response pair from wire bytes through the real unpack; None if unpack refuses the payload"""
    field = case["field"]
    lab = b if field == "dns_qname" else b"q"
    qname = dnsref.wire_name([lab, b"example"])
    qtype = 16 if field in ("dns_txt", "dns_qname") else 1
    wq = dnsref.Writer(7, dnsref.flags_word(rd=1))
    wq.question(qname, qtype, 1)
    wr = dnsref.Writer(7, dnsref.flags_word(qr=1, rd=1, ra=1))
    wr.question(qname, qtype, 1)
    if field == "dns_txt":
        wr.record(1, qname, 16, 1, 60, bytes([len(b)]) + b)
    elif field in ("dns_cname", "dns_ns", "dns_ptr"):
        t = {"dns_cname": 5, "dns_ns": 2, "dns_ptr": 12}[field]
        wr.record(1, qname, t, 1, 60, dnsref.wire_name([b, b"org"]))
    elif field == "dns_https_target":
        wr.record(1, qname, 65, 1, 60, b"\x00\x01" + dnsref.wire_name([b, b"org"]))
    elif field == "dns_unknown_rdata":
        wr.record(1, qname, 99, 1, 60, b)
    elif field == "dns_bad_a":
        wr.record(1, qname, 1, 1, 60, b)
    else:
        wr.record(1, qname, 1, 1, 60, b"\x01\x02\x03\x04")
    try:
        req = dns.DNSMessage.unpack(wq.done())
        resp = dns.DNSMessage.unpack(wr.done())
    except Exception:
        return None
    f = tflow.tdnsflow(req=req, resp=resp)
    return f


def build(case):
    """-> (flow, carried) ; carried = the field of the flow object really holds the payload"""
    hook, field, variant = case["hook"], case["field"], case["variant"]
    s, b = payload(case)
    core = TOKS[case["tok"]][0]
    if hook in ("response", "error", "http_connect_error"):
        f = tflow.tflow(resp=True)
        if hook == "http_connect_error":
            f.request = http.Request(host="example.com", port=443, method=b"CONNECT", scheme=b"", authority=b"example.com:443",
                                     path=b"", http_version=b"HTTP/1.1", headers=http.Headers(), content=b"", trailers=None,
                                     timestamp_start=0, timestamp_end=0)
            f.response = None
            f.error = mflow.Error("connect failed")
        if hook == "error":
            f.error = mflow.Error("boom")
            if variant == "no-response":
                f.response = None
        if variant == "h2":
            f.request.data.http_version = b"HTTP/2.0"
            f.response.data.http_version = b"HTTP/2.0"
        if case["ctype"] and field in ("req_body", "resp_body"):
            msg = f.request if field == "req_body" else f.response
            set_header(msg.headers, b"content-type", case["ctype"].encode())
        if field == "http_method":
            f.request.data.method = b
            carried = core in f.request.method
        elif field == "http_path":
            f.request.data.path = b"/p" + b
            carried = core in f.request.path
        elif field == "http_host":
            f.request.headers.fields = tuple(x for x in f.request.headers.fields if x[0].lower() != b"host")
            set_header(f.request.headers, b"Host", b)
            carried = core in (f.request.host_header or "")
        elif field == "http_authority":
            f.request.data.authority = b
            carried = core in f.request.authority
        elif field == "req_hname":
            set_header(f.request.headers, b, b"v")
            carried = True
        elif field == "req_hvalue":
            set_header(f.request.headers, b"x-t", b)
            carried = True
        elif field == "resp_hname":
            set_header(f.response.headers, b, b"v")
            carried = True
        elif field == "resp_hvalue":
            set_header(f.response.headers, b"x-t", b)
            carried = True
        elif field == "req_trailer":
            f.request.trailers = http.Headers([(b"x-t", b)])
            carried = True
        elif field == "resp_trailer":
            f.response.trailers = http.Headers([(b"x-t", b)])
            carried = True
        elif field == "resp_reason":
            if f.response is None:
                return f, False
            f.response.data.reason = b
            carried = core in f.response.reason
        elif field == "req_body":
            f.request.data.content = b
            carried = True
        elif field == "resp_body":
            if f.response is None:
                return f, False
            f.response.data.content = b
            carried = True
        elif field == "error_msg":
            f.error = mflow.Error(s)
            carried = True
        else:
            raise AssertionError(field)
        return f, carried
    if hook in ("websocket_message", "websocket_end"):
        f = tflow.twebsocketflow()
        carried = True
        if field == "ws_path":
            f.request.data.path = b"/ws" + b
            carried = core in f.request.path
        elif field == "ws_text":
            f.websocket.messages = [websocket.WebSocketMessage(Opcode.TEXT, True, b)]
        elif field == "ws_binary":
            f.websocket.messages = [websocket.WebSocketMessage(Opcode.BINARY, False, b)]
        elif field == "ws_close_reason":
            f.websocket.close_reason = s
        if hook == "websocket_end":
            code, who = variant.split("-")
            f.websocket.close_code = int(code)
            f.websocket.closed_by_client = who == "client"
        return f, carried
    if hook in ("tcp_message", "udp_message", "tcp_error", "udp_error"):
        is_tcp = hook.startswith("tcp")
        mk = tflow.ttcpflow if is_tcp else tflow.tudpflow
        M = tcp.TCPMessage if is_tcp else udp.UDPMessage
        f = mk()
        if field in ("tcp_payload", "udp_payload"):
            f.messages = [M(variant != "from-server", b)]
        else:
            f.error = mflow.Error(s)
        if variant == "quic":
            f.client_conn.tls_version = "QUICv1"
            f.metadata["quic_stream_id_client"] = 4
            f.metadata["quic_stream_id_server"] = 8
        return f, True
    if hook in ("dns_response", "dns_error"):
        if field == "error_msg":
            f = tflow.tdnsflow(resp=True, err=mflow.Error(s))
            return f, True
        f = dns_flow(case, b)
        if f is None:
            return None, False
        if hook == "dns_error":
            f.error = mflow.Error("timeout")
        if field == "dns_qname":
            carried = core in f.request.questions[0].name
        else:
            carried = True
        return f, carried
    raise AssertionError(hook)


# ---------------------------------------------------------------------------
# one case

_D = {}


def dumper_ctx():
    if _D.get("pid") != os.getpid():
        os.environ["COLUMNS"] = "80"
        os.environ["LINES"] = "24"
        d = dumper.Dumper(io.StringIO())
        tctx = taddons.context(d)
        _D.update(pid=os.getpid(), d=d, tctx=tctx)
    return _D["d"], _D["tctx"]


def controls(text):
    return sorted({"U+%04X" % ord(ch) for ch in text if unicodedata.category(ch) == "Cc" and ch not in "\t\n\r"})


def one(case, t: Tally, verbose=False):
    d, tctx = dumper_ctx()
    tctx.configure(d, flow_detail=case["detail"], showhost=case["showhost"], dumper_default_contentview=case["view"])
    cls = TOKS[case["tok"]][1]
    feats = {"hook": case["hook"], "field": case["field"], "cc": cls}
    if case["view"] != "auto":
        feats["view"] = case["view"]
    outs = {}
    carried = False
    raised = None
    for styled in (False, True):
        f, carried = build(case)
        if f is None:
            break
        d.outfp = io.StringIO()
        d.out_has_vt_codes = styled
        try:
            getattr(d, case["hook"])(f)
        except KeyboardInterrupt:
            raise
        except BaseException as e:
            raised = "%s: %s" % (type(e).__name__, str(e)[:200])
        outs[styled] = d.outfp.getvalue()
    if not outs:
        t.case(None, nontrivial=False)
        t.add("payload_refused_by_parser")
        return
    if verbose:
        print("  unstyled: %r" % outs.get(False))
        print("  styled:   %r" % outs.get(True))
    plain = outs.get(False, "")
    if raised:
        t.bad("no_control_chars_unstyled", dict(feats, raised=raised.split(":")[0]), case, "the hook returns", raised)
    bad = controls(plain)
    t.judge("no_control_chars_unstyled", not bad, feats, case, "no Cc character except TAB LF CR", {"controls": bad, "output": plain[:300]})
    sty = outs.get(True, "")
    rest = SGR.sub("", sty)
    extra = [c for c in controls(rest) if c not in bad]
    t.judge("styled_adds_only_sgr", not extra, feats, case,
            "styled output minus ESC[..m sequences has no control character that the unstyled output does not have",
            {"controls": extra, "styled": sty[:300], "unstyled": plain[:300]})
    echoed = "MK" in plain
    if echoed:
        t.add("field_echoed")
    if sty != plain:
        t.add("styling_present")
    t.outcome((case["hook"], case["field"], cls, case["detail"], echoed, bool(bad)))
    t.case(case if echoed and cls != "none" and case["detail"] == 2 else None, nontrivial=carried and echoed,
           key=[case[k] for k in ("hook", "field", "variant", "tok", "enc", "detail", "showhost", "view", "ctype")])


def chunk(cs):
    t = Tally()
    for c in cs:
        one(c, t)
    return t


def run(ctx):
    cs = cases(ctx.tier)
    toks = THOROUGH_TOKENS if ctx.thorough else QUICK_TOKENS
    ctx.bounds = {
        "hooks_fields": HOOK_FIELDS, "variants": VARIANTS,
        "payload_tokens": {k: repr(TOKS[k][0]) for k in toks} if not ctx.thorough else "every Cc code point U+0000-001F, 007F, 0080-009F singly + %s" % list(BASE_TOKENS),
        "byte_encodings": ["utf-8", "latin-1 (C1 tokens in byte fields)"],
        "flow_detail": [0, 1, 2, 3, 4], "showhost": [False, True], "styling": [False, True],
        "per_code_point_tokens": "thorough only: flow_detail 1 and 4, content view auto, showhost varied for the host fields" if ctx.thorough else "not in this tier",
        "content_views_for_bodies": views(), "content_types_for_http_bodies": CTYPES,
        "cases": len(cs),
    }
    ctx.log("%d cases" % len(cs))
    par.pmap_tally(chunk, cs, ctx.tally, nchunks=par.NPROC * 8)
    ctx.log("echoed: %d, styling present: %d, refused by DNS parser: %d" % (
        ctx.tally.extra.get("field_echoed", 0), ctx.tally.extra.get("styling_present", 0), ctx.tally.extra.get("payload_refused_by_parser", 0)))


def replay(case, t: Tally, verbose=False):
    one(case, t, verbose=verbose)
