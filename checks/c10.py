"""C10 - idle connections time out, but never while a hook is pending.

Engine V+X: the real `TimeoutWatchdog` (tcp_timeout = 3 virtual seconds) inside a real
`ProxyConnectionHandler` on the virtual loop.  A small script layer (multiplexing like
HttpLayer: its hooks and connects do not pause the layer) turns client bytes into
commands, so hooks are started the two ways the real server starts them:

  * through `server_event` -> `hook_task` -> `handle_hook`  (layer `StartHook`; a plain
    suspended hook, or a flow hook in which the addon policy calls `flow.intercept()`
    and the user later resumes the flow), and
  * by a *direct* `handle_hook` call from `open_connection` (`server_connected` after an
    environment-resolved connect) and from `handle_client` (`client_connected`).

Breadth-first search with state merging over all action sequences up to the depth
bound: activity, hook starts, hook completions in any order (nested and overlapping),
and clock moves (by 1 s, exactly to the next timer, to the next timer plus an overshoot
epsilon - every real `sleep` overshoots).
"""
from __future__ import annotations

import asyncio

from mitmproxy import tcp as mtcp
from mitmproxy.connection import ConnectionState
from mitmproxy.connection import Server
from mitmproxy.proxy import commands
from mitmproxy.proxy import events
from mitmproxy.proxy import layer
from mitmproxy.proxy.layers import tcp as ltcp

import vmc.drivers.world as wm
from vmc.drivers import mbfs
from vmc.drivers.eworld import EWorld
from vmc.tally import HarnessError, Tally

META = {
    "level": "model_checking",
    "technique": "breadth-first exploration with state merging of all action sequences (activity, hook start via server_event / via direct handle_hook, hook completion in any order, intercept/resume, clock moves exact / +epsilon / +1s) over the real TimeoutWatchdog inside the real ProxyConnectionHandler on a virtual clock",
    "claim": "within the depth bound, in every reachable state: the connection is never closed for inactivity while a hook is pending, never closed before `timeout` has passed since the last activity and since the last pending hook completed, and always closed once nothing is pending and more than `timeout` has passed",
    "rule": "a case is one maximal action sequence (BFS leaf: depth bound reached or connection closed); distinct = distinct action sequence; non-trivial = at least one hook was started and the clock moved",
    "assumptions": [
        "timeout 3 s stands for tcp_timeout; the clock only moves when the environment moves it; epsilon 0.25 s models sleep overshoot",
        "when the watchdog spins on sleep(0) at a frozen clock (its deadline reached exactly), the clock is ticked by 1e-6 s, as a real clock would",
        "not_early only counts client data arriving as activity; eventually_closed counts every environment action as activity (never demands more than the statement)",
        "at most 3 hooks pending at once, 4 hook starts and 2 upstream connects per execution",
    ],
}

TIMEOUT = 3
EPS = 0.25
TICK = 1e-6
MAX_PENDING = 3
MAX_STARTS = 4
MAX_OPENS = 2
MAX_ABNORMAL = 1
# (client_connected hook held, eager task factory effective as in production)
VARIANTS_QUICK = [(False, True), (True, True)]
VARIANTS_THOROUGH = [(False, True), (True, True), (False, False)]
VARIANTS = VARIANTS_THOROUGH


class ScriptLayer(layer.Layer):
    """client byte -> command.  Like HttpLayer for its streams, commands are marked as handled by this
    layer (`blocking = self`), so the layer itself never pauses and hooks can overlap."""

    def _handle_event(self, ev):
        if isinstance(ev, events.DataReceived) and ev.connection is self.context.client:
            for b in ev.data:
                c = chr(b)
                if c in "hi":
                    f = mtcp.TCPFlow(self.context.client, self.context.server, True)
                    f.metadata["icpt"] = c == "i"
                    h = ltcp.TcpMessageHook(f)
                    h.blocking = self
                    yield h
                elif c == "o":
                    s = Server(address=("10.0.0.1", 80))
                    self.conns = getattr(self, "conns", []) + [s]
                    cmd = commands.OpenConnection(s)
                    cmd.blocking = self
                    yield cmd
                elif c == "c":
                    # the layer is done with its first open upstream connection ("closed by command")
                    s = _closable(self)
                    if s is not None:
                        yield commands.CloseConnection(s)
        elif isinstance(ev, events.ConnectionClosed) and ev.connection is self.context.client:
            yield commands.CloseConnection(ev.connection)


def _closable(lay):
    """the first upstream connection the layer still uses (established, its connection task alive)"""
    for s in getattr(lay, "conns", []):
        if s.state is ConnectionState.OPEN and not getattr(s, "_dead", False):
            return s
    return None


def _policy(name, data, world):
    if name == "tcp_message" and data.metadata.get("icpt"):
        data.intercept()  # what the Intercept addon does


class Sys:
    def __init__(self):
        self.cc = None  # variant: is the client_connected hook held? chosen by the first action
        self.eager = None  # variant: task starts eager (production) or deferred
        self.hist = ()
        self.w = None
        self.t0 = 0.0
        self.callbacks = []  # times at which the watchdog invoked its callback
        self.callback_raised = False
        # reference model (harness' own bookkeeping, never read from the watchdog)
        self.pending = []  # [kind, start_time, expiries_since_start, world-suspended-record or flow]
        self.last_act = self.t0  # last client data (unambiguous activity); the accept itself counts
        self.last_any = self.t0  # last environment action of any kind except clock moves
        self.last_done = None  # when the number of pending hooks last dropped to 0
        self.closed_at = None
        self.closed_info = None
        self.starts = 0
        self.opens = 0
        self.moved = False
        self.judged_close = False
        self.livelock = False
        self.pass_next = False
        self.hook_tasks = {}
        self.abandoned = []
        self.last_abnormal = None
        self.abnormal = 0 # hooks that ended by an addon exception or by cancellation of the task handling them

    def _build(self):
        self.w = EWorld(mode="reverse:tcp://10.0.0.1:80", layer_factory=lambda ctx: ScriptLayer(ctx),
                        policy=_policy, suspend=self._suspend, eager=self.eager)
        w = self.w
        self.t0 = self.last_act = self.last_any = w.loop.time()
        wd = w.handler.timeout_watchdog
        wd.timeout = TIMEOUT  # what ConnectionHandler.__init__ reads from options.tcp_timeout (Options.update costs 1 ms per state)
        orig = wd.callback

        async def cb():
            self.callbacks.append(w.loop.time())
            try:
                await orig()
            except BaseException:
                self.callback_raised = True
                raise

        wd.callback = cb
        # observation only: which task is handling the hook for which hook argument (to cancel it like
        # close_connection / the client teardown cancel an open_connection task that awaits an async addon hook)
        orig_hh = w.handler.handle_hook

        async def hh(hook):
            (data,) = hook.args()
            self.hook_tasks[id(data)] = asyncio.current_task()
            await orig_hh(hook)

        w.handler.handle_hook = hh

    def _suspend(self, name, data, world):
        if name == "tcp_message":
            return not data.metadata.get("icpt")
        if name == "server_connected":
            return not self.pass_next
        if name == "server_disconnected":
            return True
        if name == "client_connected":
            return bool(self.cc)
        return False

    # ---------------------------------------------------------------- helpers
    @property
    def now(self):
        return self.w.loop.time()

    def _adopt(self, kind):
        """the action just performed must have left exactly one new hook held"""
        if self.livelock:
            return
        known = [p[3] for p in self.pending]
        new = [r for r in self.w.suspended if not any(r is k for k in known)]
        if len(new) != 1:
            raise HarnessError("expected one newly suspended hook, got %d after %r" % (len(new), self.hist))
        self.pending.append([kind, self.now, 0, new[0]])

    def _adopt_flow(self):
        if self.livelock:
            return
        known = [p[3] for p in self.pending] + self.abandoned
        new = [d for n, d in self.w.hook_objs if n == "tcp_message" and d.metadata.get("icpt") and d.intercepted and not any(d is k for k in known)]
        if len(new) != 1:
            raise HarnessError("expected one newly intercepted flow, got %d after %r" % (len(new), self.hist))
        self.pending.append(["icpt", self.now, 0, new[0]])

    def _run(self):
        """quiesce; when the watchdog spins on sleep(0) at a frozen clock, tick the clock"""
        w = self.w
        wm._CURRENT = w
        if self.livelock:
            return
        for _ in range(5):
            try:
                w.loop.quiesce(limit=400)
                return
            except RuntimeError:
                w.loop.advance(TICK)
        # the code under test keeps the loop busy although the clock moves: a busy loop, judged by check()
        self.livelock = True

    def closed(self):
        return any(n == "client_disconnected" for n, _ in self.w.hooks)

    def _observe_close(self, before_pending):
        if self.closed_at is None and self.closed():
            self.closed_at = self.now
            self.closed_info = {
                "pending": [[p[0], round(self.now - p[1], 6), p[2]] for p in before_pending],
                "since_act": round(self.now - self.last_act, 6),
                "since_done": None if self.last_done is None else round(self.now - self.last_done, 6),
                "by_watchdog": bool(self.callbacks),
            }

    # ---------------------------------------------------------------- actions
    def actions(self):
        if self.cc is None:
            return [["start", cc, eager] for cc, eager in VARIANTS]
        if self.closed_at is not None or self.livelock:
            return []
        w = self.w
        acts = []
        started = not any(p[0] == "client_connected" for p in self.pending)
        room = len(self.pending) < MAX_PENDING and self.starts < MAX_STARTS
        if started:
            acts.append(["act"])
            if room:
                acts.append(["ev_hook"])
                acts.append(["ev_icpt"])
            if self.opens < MAX_OPENS:
                acts.append(["open"])
            if w.pending_connects():
                if room:
                    acts.append(["conn_ok"])
                acts.append(["conn_ok_pass"])
            # the layer closes an established upstream connection: server_disconnected is then called directly and held
            # (not while a server_connected hook is pending: cancelling that is C09's subject)
            if room and _closable(w.handler.layer) is not None and not any(p[0] == "direct" for p in self.pending):
                acts.append(["close_srv"])
        for j in range(len(self.pending)):
            acts.append(["fin", j])
        if self.abnormal < MAX_ABNORMAL:
            for j, p in enumerate(self.pending):
                if p[0] != "icpt":
                    acts.append(["fin_exc", j])  # the async addon hook raises
                if p[0] != "client_connected":
                    acts.append(["cancel", j])  # the task awaiting the hook / wait_for_resume is cancelled
        if w.loop.next_timer() is not None:
            acts.append(["adv", "exact"])
            acts.append(["adv", "eps"])
        acts.append(["adv", "1"])
        return acts

    def apply(self, a):
        before = [list(p) for p in self.pending]
        kind = a[0]
        self.hist = self.hist + (tuple(a),)
        if kind == "start":
            self.cc, self.eager = bool(a[1]), bool(a[2])
            self._build()
            self.w.start()
            if self.cc:
                self._adopt("client_connected")
        w = self.w
        if kind == "start":
            pass
        elif kind == "adv":
            t_before = self.now
            nt = w.loop.next_timer()
            if a[1] == "1":
                w.loop.advance(1.0)
            else:
                if not w.loop.advance_to_next_timer(EPS if a[1] == "eps" else 0.0):
                    raise HarnessError("no timer to advance to: %r" % (self.hist,))
            if nt is not None and nt <= self.now:
                for p in self.pending:
                    p[2] += 1  # this hook has now seen one more expiry of a watchdog sleep
            before = [list(p) for p in self.pending]
            self._run()
            self.moved = self.moved or self.now > t_before
        else:
            call = w.loop.call_in_loop
            wm._CURRENT = w
            self.last_any = self.now
            if kind == "act":
                self.last_act = self.now
                call(w.client.send, b"n")
                self._run()
            elif kind == "ev_hook":
                self.last_act = self.now
                self.starts += 1
                call(w.client.send, b"h")
                self._run()
                self._adopt("event")
            elif kind == "ev_icpt":
                self.last_act = self.now
                self.starts += 1
                call(w.client.send, b"i")
                self._run()
                self._adopt_flow()
            elif kind == "open":
                self.last_act = self.now
                self.opens += 1
                call(w.client.send, b"o")
                self._run()
            elif kind in ("conn_ok", "conn_ok_pass"):
                e = w.pending_connects()[0]
                e.state = "open"
                self.pass_next = kind == "conn_ok_pass"
                call(e.connect_fut.set_result, None)
                self._run()
                self.pass_next = False
                if kind == "conn_ok":
                    self.starts += 1
                    self._adopt("direct")
            elif kind == "close_srv":
                self.last_act = self.now
                self.starts += 1
                call(w.client.send, b"c")
                self._run()
                self._adopt("direct_after_close")
            elif kind == "fin":
                p = self.pending.pop(a[1])
                if p[0] == "icpt":
                    call(p[3].resume)
                else:
                    fut = p[3][2]
                    call(lambda: (not fut.done()) and fut.set_result(None))
                if not self.pending:
                    self.last_done = self.now
                self._run()
            elif kind in ("fin_exc", "cancel"):
                if kind == "cancel":
                    # (an addon exception is swallowed by the addon manager: for the handler the hook just returns, the
                    # state merges with the one after a normal completion)
                    self.abnormal += 1
                    self.last_abnormal = kind
                p = self.pending.pop(a[1])
                data = p[3] if p[0] == "icpt" else p[3][1]
                if kind == "fin_exc":
                    fut = p[3][2]
                    call(lambda: (not fut.done()) and fut.set_exception(RuntimeError("addon hook failed")))
                else:
                    task = self.hook_tasks.get(id(data))
                    if task is None:
                        raise HarnessError("no task recorded for pending hook %r" % (p[0],))
                    if p[0] == "direct":
                        data.server._dead = True  # its open_connection task is gone; the layer will not use it any more
                    if p[0] == "icpt":
                        self.abandoned.append(data)  # still marked intercepted, but nobody waits for it any more
                    call(task.cancel)
                if not self.pending:
                    self.last_done = self.now
                self._run()
            else:
                raise HarnessError("unknown action %r" % (a,))
        self._observe_close(before)

    # ---------------------------------------------------------------- oracle
    def feats(self):
        info = self.closed_info or {}
        pend = info.get("pending") or []
        f = {"client_connected_held": self.cc, "eager": self.eager}
        if pend:
            f["oldest_pending"] = pend[0][0]
            f["timer_expiries_since_oldest_started"] = "1" if pend[0][2] <= 1 else "2+"
            f["n_pending"] = min(len(pend), 2)
        return f

    def case(self):
        return {"hist": [list(a) for a in self.hist]}

    def check(self, t: Tally):
        """step clauses, evaluated in every state"""
        if self.cc is None:
            return
        case = self.case()
        if self.closed_at is not None and not self.judged_close:
            self.judged_close = True
            info = self.closed_info
            f = self.feats()
            t.judge("never_closed_while_hook_pending", not info["pending"], f, case, "no hook pending when the connection is closed for inactivity", info)
            t.judge("not_early_after_activity", info["since_act"] >= TIMEOUT, dict(f, last=self.hist[-1][0]), case, ">= %d s since the last client data" % TIMEOUT, info)
            if info["since_done"] is not None and not info["pending"]:
                t.judge("idle_period_restarts_after_last_hook", info["since_done"] >= TIMEOUT, dict(f, last=self.hist[-1][0]), case, ">= %d s since the last pending hook completed" % TIMEOUT, info)
        if self.livelock:
            if not self.judged_close:
                self.judged_close = True
                t.bad("eventually_closed", {"client_connected_held": self.cc, "eager": self.eager, "watchdog": "busy-loop"}, case,
                      "the loop settles once the clock moves", "the connection's tasks keep the event loop busy forever (clock ticked 5 times)")
            return
        if self.closed_at is None:
            idle = self.now - self.last_any
            must = (not self.pending) and idle > TIMEOUT
            t.judge("eventually_closed", not must, {"client_connected_held": self.cc, "eager": self.eager, "callback_raised": self.callback_raised, "watchdog_called": bool(self.callbacks), "hook_ended_abnormally": self.last_abnormal}, case,
                    "closed: nothing pending and %.6f s > %d s without any event" % (idle, TIMEOUT),
                    {"timer": self.w.loop.next_timer(), "callbacks": [round(c - self.t0, 6) for c in self.callbacks]})

    def fingerprint(self):
        w = self.w
        if w is None:
            return {"init": True}
        now = self.now
        wd = w.handler.timeout_watchdog
        nt = w.loop.next_timer()
        def age(x):
            # ages only matter up to the timeout: every comparison in the watchdog and in the oracle is against it
            if x is None:
                return None
            d = round(now - x, 6)
            return d if d <= TIMEOUT else "gt"

        return {
            "cc": self.cc, "eager": self.eager,
            "blocker": wd.blocker, "can": wd.can_timeout.is_set(), "la": age(wd.last_activity),
            "timer": None if nt is None else round(nt - now, 6),
            # the age of a pending hook is only reported, never compared
            "pending": [[p[0], min(p[2], 2)] for p in self.pending],
            "ref": [age(self.last_act), age(self.last_any), age(self.last_done)],
            "closed": self.closed_at is not None, "connects": len(w.pending_connects()), "opens": self.opens, "starts": self.starts,
            "callbacks": len(self.callbacks), "raised": self.callback_raised, "livelock": self.livelock, "abnormal": [self.abnormal, self.last_abnormal],
            "usable": [s.state.name + ("-dead" if getattr(s, "_dead", False) else "") for s in getattr(w.handler.layer, "conns", [])],
            "servers": [e.state + ("-closed" if e.w.closed else "") for e in w.servers],
        }

    def final(self, t: Tally):
        """close-out: complete everything that is pending, then let time pass; the connection must get closed"""
        w = self.w
        if self.cc is None:
            return
        if self.closed_at is None and not self.livelock:
            while self.pending:
                self.apply(["fin", 0])
                self.check(t)
            for _ in range(8):
                if self.closed_at is not None:
                    break
                if w.loop.next_timer() is None:
                    self.apply(["adv", "1"])
                else:
                    self.apply(["adv", "eps"])
                self.check(t)
            if self.closed_at is None and self.now - self.last_any <= TIMEOUT:
                raise HarnessError("close-out did not pass the timeout: %r" % (self.hist,))
        t.case(self.case() if len(t.samples) < 2 and self.starts >= 2 else None, nontrivial=self.starts > 0 and self.moved, key=self.case())
        t.outcome([self.closed_info, len(self.callbacks), self.callback_raised])
        t.add("closed_by_watchdog" if self.callbacks else "not_closed")


_LIVE: list = []


def _dispose_all(keep=None):
    for s in list(_LIVE):
        if s is not keep:
            _LIVE.remove(s)
            if s.w is not None:
                s.w.dispose()


class Spec:
    """a state is its action history; the variant (client_connected held or not) is the first action"""

    def replay(self, hist):
        _dispose_all()  # one World at a time: the process-wide Master/Probe points at the newest World
        s = Sys()
        _LIVE.append(s)
        for a in hist:
            s.apply(a)
        return s


def run(ctx):
    global VARIANTS
    depth = ctx.pick(6, 8)
    VARIANTS = ctx.pick(VARIANTS_QUICK, VARIANTS_THOROUGH)
    ctx.bounds = {
        "timeout_s": TIMEOUT, "epsilon_s": EPS, "depth": "%d actions after the variant choice" % depth,
        "actions": ["act", "ev_hook", "ev_icpt", "open", "conn_ok (server_connected held)", "conn_ok_pass", "close_srv (server_disconnected held)", "fin j", "fin_exc j (addon hook raises)", "cancel j (task handling the hook is cancelled; <= 1)", "adv exact", "adv eps", "adv 1"],
        "max_pending_hooks": MAX_PENDING, "max_hook_starts": MAX_STARTS, "max_opens": MAX_OPENS,
        "variants (client_connected held, eager task start)": [list(v) for v in VARIANTS],
    }
    mbfs.bfs_once(Spec(), depth + 1, ctx.tally, log=ctx.log)
    _dispose_all()


def replay(case, t, verbose=False):
    spec = Spec()
    s = spec.replay(())
    try:
        s.check(t)
        for a in case["hist"]:
            s.apply(list(a))
            s.check(t)
            if verbose:
                wd = s.w.handler.timeout_watchdog
                print("%-16s t=%.6f blocker=%d can_timeout=%s pending=%s closed=%s hooks=%s" % (
                    a, s.now - s.t0, wd.blocker, wd.can_timeout.is_set(), [[p[0], round(s.now - p[1], 6)] for p in s.pending], s.closed_at is not None, [n for n, _ in s.w.hooks][-3:]))
        s.final(t)
    finally:
        _dispose_all()
