"""dnsdrv - a sans-io driver for mitmproxy's DNSLayer.

The layer is driven through `layer.handle_event(...)` directly (no Playbook) and its
commands are interpreted the way `ConnectionHandler.server_event`, `open_connection`,
`handle_connection` and `close_connection` in mitmproxy/proxy/server.py do:

  OpenConnection(c)    c enters the transport table at once (server_event registers the
                       ConnectionIO before the connect task runs); the environment decides
                       success/failure (`connect` callable or constant).  success:
                       c.state = OPEN, OpenConnectionCompleted(cmd, None).  failure: c.error
                       set, OpenConnectionCompleted(cmd, err) - and, as in the real server,
                       c *stays* in the transport table, so a second OpenConnection for the
                       same connection object trips server_event's assertion: recorded as
                       ("crash", "AssertionError", ...), the layer is left paused for ever.
  StartHook h          the addon policy `policy(name, flow, drv)` runs, then
                       HookCompleted(h) iff h.blocking (it is the Layer object by then).
  SendData(c, d)       appended to c's outbound log; dropped if c is not in the
                       transport table any more (as server_event does).
  CloseConnection(c)   c.state = CLOSED, c leaves the table; the cancelled
                       handle_connection task reports exactly one ConnectionClosed(c),
                       delivered right after the current event.
  peer EOF on c        tcp: state &= ~CAN_READ, udp: CLOSED; one ConnectionClosed(c).
  Log                  recorded, never judged.
  exception            recorded as ("crash", type name, text) - "mitmproxy has crashed!" in the
                       real server, which then keeps the connection; the driver stops
                       feeding this layer.

Completions of blocking commands are delivered immediately by default
(`defer=False`); with `defer=True` they queue up in `self.pending` and the caller
releases them with `complete(i)` - while a command is pending the real layer buffers
all further events, which is exactly what happens while an addon hook is running.

The transcript `self.log` is a list of JSON-able tuples:
  ("hook", name, snapshot)   ("send", "client"|"server", bytes)   ("open", "ok"|err)
  ("close", "client"|"server")   ("log", text)   ("crash", exc type, text)
"""
from __future__ import annotations

from mitmproxy import connection, options
from mitmproxy.addons.proxyserver import Proxyserver
from mitmproxy.connection import ConnectionState
from mitmproxy.proxy import commands, context, events
from mitmproxy.proxy.layers import dns as dns_layer

_OPTS = None


def real_options():
    """the shipped defaults: Options() plus the option definitions of the Proxyserver addon"""
    global _OPTS
    if _OPTS is None:
        _OPTS = options.Options()
        Proxyserver().load(_OPTS)
    return _OPTS


def msg_snapshot(m):
    if m is None:
        return None
    return {
        "id": m.id, "query": m.query, "op_code": m.op_code, "rd": m.recursion_desired,
        "questions": [(q.name, q.type, q.class_) for q in m.questions],
        "rcode": m.response_code, "n_answers": len(m.answers),
    }


def flow_snapshot(flow):
    has_req = hasattr(flow, "request")
    return {
        "has_request": has_req,
        "request": msg_snapshot(flow.request) if has_req else None,
        "response": msg_snapshot(flow.response),
        "error": flow.error.msg if flow.error else None,
        "flow": id(flow),
    }


class ServerAssertion(Exception):
    """an `assert` of mitmproxy/proxy/server.py that the mirrored code path would trip"""


def pass_policy(name, flow, drv):
    return None


class DnsDriver:
    def __init__(self, transport="udp", upstream=("192.0.2.53", 53), policy=pass_policy, connect=None, defer=False):
        self.client = connection.Client(
            peername=("192.0.2.1", 51234), sockname=("192.0.2.2", 53), timestamp_start=1605699329,
            state=ConnectionState.OPEN, transport_protocol=transport,
        )
        self.ctx = context.Context(self.client, real_options())
        self.server = self.ctx.server
        assert self.server.transport_protocol == transport
        self.server.address = upstream
        self.layer = dns_layer.DNSLayer(self.ctx)
        self.policy = policy
        self.connect = connect  # None/str constant, or callable(n_th_open) -> None/str
        self.defer = defer
        self.transports = {self.client}
        self.peer_closed = set()
        self.log: list = []
        self.out = {"client": [], "server": []}
        self.pending: list = []  # blocking commands awaiting completion (defer mode)
        self.crashed = False
        self.opens = 0
        self.hooks: list = []  # (name, flow) live objects, for oracles that look at the flow itself
        self._flow_ids: dict = {}
        self._queue: list = []
        self._feed(events.Start())

    # -- naming ---------------------------------------------------------------
    def side(self, conn):
        return "client" if conn is self.client else "server"

    def flow_no(self, flow):
        return self._flow_ids.setdefault(id(flow), len(self._flow_ids))

    # -- environment actions ----------------------------------------------------
    def client_data(self, data: bytes):
        if self.client in self.transports and self.client not in self.peer_closed:
            self._feed(events.DataReceived(self.client, bytes(data)))
            return True
        return False

    def server_data(self, data: bytes):
        if self.server in self.transports and self.server not in self.peer_closed:
            self._feed(events.DataReceived(self.server, bytes(data)))
            return True
        return False

    def peer_close(self, conn):
        """the peer closes (EOF / read error) - mirrors the end of handle_connection"""
        if conn not in self.transports or conn in self.peer_closed:
            return False
        self.peer_closed.add(conn)
        if conn.transport_protocol == "tcp":
            conn.state &= ~ConnectionState.CAN_READ
        else:
            conn.state = ConnectionState.CLOSED
        if conn.state is ConnectionState.CLOSED:
            self.transports.discard(conn)
        self._feed(events.ConnectionClosed(conn))
        return True

    def client_close(self):
        return self.peer_close(self.client)

    def server_close(self):
        return self.peer_close(self.server)

    def complete(self, i=0):
        """deliver the completion of the i-th pending blocking command (defer mode)"""
        ev = self.pending.pop(i)
        if callable(ev):
            ev = ev()
        self._feed(ev)

    # -- engine -----------------------------------------------------------------
    def _feed(self, ev):
        self._queue.append(ev)
        if len(self._queue) > 1:
            return  # re-entrant call from inside the loop below: handled there, in order
        while self._queue:
            e = self._queue[0]
            if not self.crashed:
                self._handle(e() if callable(e) else e)
            self._queue.pop(0)

    def _handle(self, ev):
        gen = self.layer.handle_event(ev)
        while True:
            try:
                cmd = next(gen)
            except StopIteration:
                return
            except KeyboardInterrupt:  # pragma: no cover
                raise
            except BaseException as e:  # out of mitmproxy's code: "mitmproxy has crashed!"
                self.crashed = True
                self.log.append(("crash", type(e).__name__, str(e)[:200]))
                return
            try:
                self._command(cmd)  # the harness's own errors propagate (exit 2)
            except ServerAssertion as e:
                self.crashed = True
                self.log.append(("crash", "AssertionError", str(e)))
                return

    def _later(self, ev):
        if self.defer:
            self.pending.append(ev)
        else:
            self._queue.append(ev)

    def _command(self, cmd):
        if isinstance(cmd, commands.OpenConnection):
            if cmd.connection in self.transports:
                # server.py: `assert command.connection not in self.transports` inside server_event's try block
                raise ServerAssertion("OpenConnection for a connection that is still in the transport table")
            self.transports.add(cmd.connection)  # server_event registers the ConnectionIO right away
            self._later(lambda: self._open_result(cmd))
        elif isinstance(cmd, commands.StartHook):
            (flow,) = cmd.args()
            self.hooks.append((cmd.name, flow))
            snap = flow_snapshot(flow)
            snap["flow"] = self.flow_no(flow)
            self.log.append(("hook", cmd.name, snap))
            self.policy(cmd.name, flow, self)
            if cmd.blocking:
                self._later(events.HookCompleted(cmd))
        elif isinstance(cmd, commands.ConnectionCommand) and cmd.connection not in self.transports:
            self.log.append(("dropped", type(cmd).__name__, self.side(cmd.connection)))
        elif isinstance(cmd, commands.SendData):
            who = self.side(cmd.connection)
            self.out[who].append(bytes(cmd.data))
            self.log.append(("send", who, bytes(cmd.data)))
        elif isinstance(cmd, commands.CloseConnection):
            if isinstance(cmd, commands.CloseTcpConnection) and cmd.half_close:
                cmd.connection.state &= ~ConnectionState.CAN_WRITE
                self.log.append(("half_close", self.side(cmd.connection)))
                if cmd.connection.state is not ConnectionState.CLOSED:
                    return
            c = cmd.connection
            c.state = ConnectionState.CLOSED
            self.transports.discard(c)
            self.log.append(("close", self.side(c)))
            if c not in self.peer_closed:
                self.peer_closed.add(c)
                self._queue.append(events.ConnectionClosed(c))
        elif isinstance(cmd, commands.Log):
            self.log.append(("log", str(cmd.message)[:200]))
        elif isinstance(cmd, commands.RequestWakeup):
            self.log.append(("wakeup", cmd.delay))
        else:
            raise RuntimeError("unexpected command %r" % (cmd,))

    def _open_result(self, cmd):
        n = self.opens
        self.opens += 1
        err = self.connect(n) if callable(self.connect) else self.connect
        c = cmd.connection
        if err is None and not c.address:
            err = "Cannot open connection, no hostname given."
        if err is None:
            c.state = ConnectionState.OPEN
            c.timestamp_start = 1605699330
            c.peername = c.address
            self.peer_closed.discard(c)
            self.log.append(("open", "ok"))
        else:
            c.error = err  # the transport table entry is *not* removed by open_connection's failure path
            self.log.append(("open", err))
        return events.OpenConnectionCompleted(cmd, err)

    # -- views --------------------------------------------------------------------
    def layer_state(self):
        return getattr(self.layer._handle_event, "__name__", "?")

    def closed(self, who):
        return ("close", who) in self.log
