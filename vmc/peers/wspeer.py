"""WebSocket peers for C28: an RFC 6455 frame serializer / parser written here (so that
frames a wsproto *sender* cannot produce - a text frame cut inside a code point - can be
put on the wire and the frames mitmproxy emits can be measured byte-exactly), plus thin
wrappers around wsproto connections for permessage-deflate and for semantic reassembly
(wsproto is the independent receiver: it validates UTF-8 across fragments and framing).
"""
from __future__ import annotations

import struct

import wsproto.events as we
import wsproto.extensions
from wsproto.connection import Connection, ConnectionType

TEXT, BINARY, CONT, CLOSE, PING, PONG = 1, 2, 0, 8, 9, 10
MASK_KEY = b"\x11\x22\x33\x44"


def frame(opcode: int, payload: bytes, fin: bool = True, masked: bool = False, rsv1: bool = False) -> bytes:
    b0 = (0x80 if fin else 0) | (0x40 if rsv1 else 0) | opcode
    n = len(payload)
    m = 0x80 if masked else 0
    if n < 126:
        head = bytes([b0, m | n])
    elif n < 65536:
        head = bytes([b0, m | 126]) + struct.pack("!H", n)
    else:
        head = bytes([b0, m | 127]) + struct.pack("!Q", n)
    if masked:
        body = bytes(c ^ MASK_KEY[i & 3] for i, c in enumerate(payload)) if n < 4096 else _mask(payload)
        return head + MASK_KEY + body
    return head + payload


def _mask(payload: bytes) -> bytes:
    key = (MASK_KEY * (len(payload) // 4 + 1))[: len(payload)]
    return (int.from_bytes(payload, "big") ^ int.from_bytes(key, "big")).to_bytes(len(payload), "big")


def parse_frames(data: bytes):
    """-> ([(fin, rsv1, opcode, payload)], rest)  (unmasks)"""
    out = []
    i = 0
    while True:
        if len(data) - i < 2:
            break
        b0, b1 = data[i], data[i + 1]
        n = b1 & 0x7F
        j = i + 2
        if n == 126:
            if len(data) - j < 2:
                break
            n = struct.unpack("!H", data[j: j + 2])[0]
            j += 2
        elif n == 127:
            if len(data) - j < 8:
                break
            n = struct.unpack("!Q", data[j: j + 8])[0]
            j += 8
        key = None
        if b1 & 0x80:
            if len(data) - j < 4:
                break
            key = data[j: j + 4]
            j += 4
        if len(data) - j < n:
            break
        payload = data[j: j + n]
        if key is not None and n:
            k = (key * (n // 4 + 1))[:n]
            payload = (int.from_bytes(payload, "big") ^ int.from_bytes(k, "big")).to_bytes(n, "big")
        out.append((bool(b0 & 0x80), bool(b0 & 0x40), b0 & 0x0F, payload))
        i = j + n
    return out, data[i:]


def message_frames(is_text: bool, pieces: list[bytes], masked: bool) -> list[bytes]:
    """one (uncompressed) message as a list of wire frames, one per piece; pieces may cut a code point"""
    out = []
    for k, p in enumerate(pieces):
        op = (TEXT if is_text else BINARY) if k == 0 else CONT
        out.append(frame(op, p, fin=(k == len(pieces) - 1), masked=masked))
    return out


def close_frame(code, reason: str, masked: bool) -> bytes:
    payload = b"" if code is None else struct.pack("!H", code) + reason.encode()
    return frame(CLOSE, payload, masked=masked)


def _ext(deflate):
    if not deflate:
        return []
    e = wsproto.extensions.PerMessageDeflate()
    e.finalize("permessage-deflate")
    return [e]


class Peer:
    """one endpoint: `role` "client" sends masked frames and talks to mitmproxy's client side"""

    def __init__(self, role: str, deflate: bool):
        self.role, self.deflate = role, deflate
        self.masked = role == "client"
        self.conn = Connection(ConnectionType.CLIENT if role == "client" else ConnectionType.SERVER, _ext(deflate))
        self.raw = b""  # everything mitmproxy wrote to this peer
        self.messages = []  # [is_text, content bytes, n_frames]
        self.cur = None
        self.pings, self.pongs, self.closes, self.errors = [], [], [], []

    # ---- sending
    def message(self, is_text: bool, pieces: list[bytes]) -> list[bytes]:
        if not self.deflate:
            return message_frames(is_text, pieces, self.masked)
        out = []
        for k, p in enumerate(pieces):
            fin = k == len(pieces) - 1
            ev = we.TextMessage(p.decode(), message_finished=fin) if is_text else we.BytesMessage(p, message_finished=fin)
            out.append(self.conn.send(ev))
        return out

    def ping(self, payload: bytes) -> bytes:
        return frame(PING, payload, masked=self.masked)

    def pong(self, payload: bytes) -> bytes:
        return frame(PONG, payload, masked=self.masked)

    def close(self, code, reason="") -> bytes:
        return close_frame(code, reason, self.masked)

    # ---- receiving
    def receive(self, data: bytes):
        self.raw += data
        try:
            self.conn.receive_data(data)
            for ev in self.conn.events():
                self._on(ev)
        except Exception as e:  # wsproto refuses what it got
            self.errors.append("%s: %s" % (type(e).__name__, e))

    def _on(self, ev):
        if isinstance(ev, we.Message):
            is_text = isinstance(ev, we.TextMessage)
            if self.cur is None:
                self.cur = [is_text, b"", 0]
            self.cur[1] += ev.data.encode() if is_text else bytes(ev.data)
            if ev.frame_finished:
                self.cur[2] += 1
            if ev.message_finished:
                self.messages.append(self.cur)
                self.cur = None
        elif isinstance(ev, we.Ping):
            self.pings.append(bytes(ev.payload))
        elif isinstance(ev, we.Pong):
            self.pongs.append(bytes(ev.payload))
        elif isinstance(ev, we.CloseConnection):
            self.closes.append([ev.code, ev.reason])

    def frames(self):
        """data frames mitmproxy wrote to this peer (only meaningful without deflate): per message the payload lengths"""
        fr, _ = parse_frames(self.raw)
        msgs, cur = [], None
        for fin, rsv1, op, payload in fr:
            if op in (TEXT, BINARY):
                cur = [len(payload)]
            elif op == CONT and cur is not None:
                cur.append(len(payload))
            else:
                continue
            if fin:
                msgs.append(cur)
                cur = None
        return msgs
