"""C15 - upstream certificates are verified unless verification is disabled.

Engine E: the full product  certificate kind x server identity x identity source x trust configuration x ssl_insecure
x TLS version x who opens the connection.  Every case is one real handshake: the real `TlsConfig.tls_start_server`
builds the pyOpenSSL connection, the real `ServerTLSLayer` drives it, a stdlib-`ssl` server on MemoryBIOs presents a
chain minted with `cryptography`.  The expected outcome is computed from the statement alone (ref_accepts below), never
from OpenSSL.
"""
from __future__ import annotations

import ipaddress
import logging

from vmc import par
from vmc.peers import tlspeer as tp
from vmc.tally import HarnessError, Tally

META = {
    "level": "exploration",
    "technique": "full-product enumeration of (certificate kind, server identity, identity source, trust configuration, ssl_insecure, TLS version, open mode); one real in-memory handshake "
                 "per case through the real TlsConfig.tls_start_server + ServerTLSLayer against a stdlib-ssl server presenting minted chains; reference table computed from the statement",
    "claim": "for every combination in the stated alphabet the handshake completes exactly when the reference says so (chain to a configured CA and valid now and name matches, or ssl_insecure); "
             "on refusal the failure hook fires with an error, the connection is closed and the server decrypts no application byte; exploration because the subject is a function of a finite "
             "configuration tuple",
    "rule": "a case is the tuple above; distinct = distinct tuple; non-trivial = the handshake really ran (the server peer received a ClientHello) and, when success is expected, application "
            "bytes were exchanged in both directions",
    "assumptions": [
        "OpenSSL's chain building and signature checks are trusted; what is checked is that mitmproxy asks for them with the right parameters in every configuration",
        "name matching reference: DNS subjectAltName equal ignoring case, or a whole-label wildcard in the left-most label matching exactly one label; no partial wildcards; Common Name never; "
        "IP identities only against iPAddress SANs",
        "validity windows are at least 30 days away from the present, so no verdict depends on the clock",
        "a chain through an intermediate counts as leading to a trusted CA only if the server sends the intermediate, and only if the intermediate is a CA certificate",
        "'default' trust configuration = neither option set: mitmproxy then uses certifi.where(); the harness points certifi.where() at a bundle holding a third test root C, so the "
        "default bundle is observable: root C is trusted exactly when no CA file and no CA directory is configured, roots A and B never by default",
        "DTLS (named in DESIGN.md for the thorough tier) is not covered: stdlib ssl has no DTLS and no independent DTLS peer is available",
    ],
}

GREETING = b"GET / HTTP/1.1\r\nHost: www.example.com\r\n\r\n"
REPLY = b"HTTP/1.1 204 No Content\r\n\r\n"
OTHER_ADDR = "203.0.113.5"

ALLNAMES = ["dns:www.example.com", "dns:example.com", "dns:a.b.example.com", "dns:xn--mnchen-3ya.example", "ip:192.0.2.1", "ip:2001:db8::1"]

# kind -> (cn, sans, issuer, days, chain sent after the leaf)
KINDS = {
    "all-names": ("leaf.test", ALLNAMES, "rootA", (-30, 365), []),
    "san-exact": ("leaf.test", ["dns:www.example.com", "dns:xn--mnchen-3ya.example"], "rootA", (-30, 365), []),
    "san-other": ("leaf.test", ["dns:other.example.org"], "rootA", (-30, 365), []),
    "wildcard": ("leaf.test", ["dns:*.example.com"], "rootA", (-30, 365), []),
    "partial-wildcard": ("leaf.test", ["dns:w*.example.com"], "rootA", (-30, 365), []),
    "cn-only": ("www.example.com", [], "rootA", (-30, 365), []),
    "cn-plus-other-san": ("www.example.com", ["dns:other.example.org"], "rootA", (-30, 365), []),
    "ip-san": ("leaf.test", ["ip:192.0.2.1", "ip:2001:db8::1"], "rootA", (-30, 365), []),
    "ip-as-dns-san": ("leaf.test", ["dns:192.0.2.1"], "rootA", (-30, 365), []),
    "cn-ip-only": ("192.0.2.1", [], "rootA", (-30, 365), []),
    "expired": ("leaf.test", ALLNAMES, "rootA", (-60, -30), []),
    "not-yet-valid": ("leaf.test", ALLNAMES, "rootA", (30, 60), []),
    "self-signed": ("leaf.test", ALLNAMES, None, (-30, 365), []),
    "other-ca": ("leaf.test", ALLNAMES, "rootB", (-30, 365), []),
    "default-bundle-ca": ("leaf.test", ALLNAMES, "rootC", (-30, 365), []),
    "inter-sent": ("leaf.test", ALLNAMES, "interA", (-30, 365), ["interA"]),
    "inter-missing": ("leaf.test", ALLNAMES, "interA", (-30, 365), []),
    "inter-not-ca": ("leaf.test", ALLNAMES, "interNotCa", (-30, 365), ["interNotCa"]),
    "inter-expired": ("leaf.test", ALLNAMES, "interExpired", (-30, 365), ["interExpired"]),
}
THOROUGH_KINDS = {
    "partial-wildcard-suffix": ("leaf.test", ["dns:*w.example.com"], "rootA", (-30, 365), []),
    "partial-wildcard-infix": ("leaf.test", ["dns:w*w.example.com"], "rootA", (-30, 365), []),
    "wildcard-second-label": ("leaf.test", ["dns:www.*.com"], "rootA", (-30, 365), []),
    "wildcard-two-labels": ("leaf.test", ["dns:*.b.example.com", "dns:*.*.example.com"], "rootA", (-30, 365), []),
    "expired-other-ca": ("leaf.test", ["dns:other.example.org"], "rootB", (-60, -30), []),
}
# which root a chain ends in, and what else is wrong with the path
ROOT_OF = {"rootA": "A", "rootB": "B", "rootC": "C", "interA": "A", "interNotCa": "A", "interExpired": "A", None: None}

# trust configuration -> (set of trusted roots, options)
TRUSTS = ["file:A", "dir:A", "file:B", "file:A+dir:B", "file:AB", "default"]
TRUSTED = {"file:A": {"A"}, "dir:A": {"A"}, "file:B": {"B"}, "file:A+dir:B": {"A", "B"}, "file:AB": {"A", "B"}, "default": {"C"}}

# identity -> (kind of identity, canonical form used by the reference)
IDENTITIES = {
    "www.example.com": ("dns", "www.example.com"),
    "example.com": ("dns", "example.com"),
    "a.b.example.com": ("dns", "a.b.example.com"),
    "WWW.Example.COM": ("dns-upper", "www.example.com"),
    "münchen.example": ("idn", "xn--mnchen-3ya.example"),
    "192.0.2.1": ("ipv4", "192.0.2.1"),
    "2001:db8::1": ("ipv6", "2001:db8::1"),
}
THOROUGH_IDENTITIES = {
    "xn--mnchen-3ya.example": ("idn", "xn--mnchen-3ya.example"),
    "b.example.com": ("dns", "b.example.com"),
    "192.0.2.2": ("ipv4", "192.0.2.2"),
    "2001:DB8:0:0:0:0:0:1": ("ipv6", "2001:db8::1"),
    "::ffff:192.0.2.1": ("ipv6", "::ffff:192.0.2.1"),
}
ALL_KINDS = {**KINDS, **THOROUGH_KINDS}
ALL_IDS = {**IDENTITIES, **THOROUGH_IDENTITIES}


# ---------------------------------------------------------------------------
# the reference: the statement, nothing else


def ref_name_matches(canon: str, id_kind: str, sans) -> bool:
    if id_kind in ("ipv4", "ipv6"):
        ip = ipaddress.ip_address(canon)
        return any(s.startswith("ip:") and ipaddress.ip_address(s[3:]) == ip for s in sans)
    host = canon.lower()
    for s in sans:
        if not s.startswith("dns:"):
            continue
        pat = s[4:].lower()
        if "*" not in pat:
            if pat == host:
                return True
            continue
        # whole-label wildcard, left-most label only, stands for exactly one label
        first, _, rest = pat.partition(".")
        if first != "*" or "*" in rest or not rest:
            continue
        hfirst, _, hrest = host.partition(".")
        if hfirst and hrest == rest:
            return True
    return False


def ref(kind, identity, trust, insecure, src="address"):
    """-> (accept, [reasons for refusal]).  src "no_name": mitmproxy is told to use no server name at all
    (server.sni == ""): there is nothing the certificate could be checked against, so no certificate 'names the server'"""
    cn, sans, issuer, days, sent = ALL_KINDS[kind]
    id_kind, canon = ALL_IDS[identity]
    why = []
    root = ROOT_OF[issuer]
    chain_ok = root is not None and root in TRUSTED[trust]
    if issuer in ("interA", "interNotCa", "interExpired") and issuer not in sent:
        chain_ok = False
    if issuer == "interNotCa":
        chain_ok = False
    if not chain_ok:
        why.append("chain")
    if not (days[0] < 0 < days[1]) or issuer == "interExpired":
        why.append("time")
    if src == "no_name" or not ref_name_matches(canon, id_kind, sans):
        why.append("name")
    return (insecure or not why), why


REASONS = {
    "hostname mismatch": "name", "ip address mismatch": "name",
    "certificate has expired": "time", "certificate is not yet valid": "time",
    "self-signed certificate": "chain", "self signed certificate": "chain", "unable to get local issuer certificate": "chain", "unable to verify the first certificate": "chain",
    "invalid ca certificate": "chain", "self-signed certificate in certificate chain": "chain", "unable to get issuer certificate": "chain",
}


def reason_class(err):
    e = (err or "").lower()
    if "certificate verify failed:" in e:
        txt = e.split("certificate verify failed:", 1)[1].strip()
        if txt in REASONS:
            return REASONS[txt]
        for k, v in REASONS.items():  # newer libssl builds append advice ("... or the system clock is incorrect")
            if txt.startswith(k):
                return v
    return "other:" + e[-50:]


# ---------------------------------------------------------------------------
# PKI and peers, once per process

_P: dict = {}
_CTX: dict = {}


def setup():
    if _P:
        return _P
    logging.disable(logging.CRITICAL)
    env = tp.tls_env("c15")
    d = tp.scratch() + "/c15"
    cas = {
        "rootA": tp.mint(cn="vmc C15 root A", key_name="rootA", ca=True),
        "rootB": tp.mint(cn="vmc C15 root B", key_name="rootB", ca=True),
        "rootC": tp.mint(cn="vmc C15 root C (default bundle)", key_name="rootC", ca=True),
    }
    cas["interA"] = tp.mint(cn="vmc C15 intermediate", key_name="inter", issuer=cas["rootA"], issuer_key="rootA", ca=True)
    cas["interExpired"] = tp.mint(cn="vmc C15 expired intermediate", key_name="inter", issuer=cas["rootA"], issuer_key="rootA", ca=True, days=(-60, -30))
    cas["interNotCa"] = tp.mint(cn="vmc C15 leaf posing as intermediate", key_name="inter", issuer=cas["rootA"], issuer_key="rootA", ca=False, sans=["dns:inter.example.org"])
    key_of = {"rootA": "rootA", "rootB": "rootB", "rootC": "rootC", "interA": "inter", "interExpired": "inter", "interNotCa": "inter"}
    keyfile = tp.write(d + "/leaf.key", tp.key_pem("leaf"))
    chains = {}
    for kind, (cn, sans, issuer, days, sent) in ALL_KINDS.items():
        leaf = tp.mint(cn=cn, key_name="leaf", issuer=cas[issuer] if issuer else None, issuer_key=key_of[issuer] if issuer else None, sans=sans, days=days)
        chains[kind] = tp.write("%s/chain-%s.pem" % (d, kind), tp.cert_pem(leaf) + b"".join(tp.cert_pem(cas[x]) for x in sent))
    fa = tp.write(d + "/A.pem", tp.cert_pem(cas["rootA"]))
    fb = tp.write(d + "/B.pem", tp.cert_pem(cas["rootB"]))
    fab = tp.write(d + "/AB.pem", tp.cert_pem(cas["rootB"]) + tp.cert_pem(cas["rootA"]))
    # the default bundle: whatever certifi.where() names.  net/tls.py calls `certifi.where()` on the module, so replacing
    # the module attribute (in this process and its forked workers only) makes "default trust" a test root of our own.
    import certifi

    bundle = tp.write(d + "/default-bundle.pem", tp.cert_pem(cas["rootC"]))
    certifi.where = lambda: bundle
    da = tp.hashed_dir(d + "/dirA", [cas["rootA"]])
    db = tp.hashed_dir(d + "/dirB", [cas["rootB"]])
    client = tp.mint(cn="vmc C15 client", key_name="leaf", issuer=cas["rootB"], issuer_key="rootB", eku=())
    # client_certs is a PEM with key + certificate, optionally followed by the chain that issued it.  Those extra CA
    # certificates serve to *present* the client's chain; they are not a configured trusted CA for the server's chain.
    cc = {"leaf": tp.write(d + "/client.pem", tp.key_pem("leaf") + tp.cert_pem(client)),
          "bundle": tp.write(d + "/client-bundle.pem", tp.key_pem("leaf") + tp.cert_pem(client) + tp.cert_pem(cas["rootB"]))}
    opts = {
        "file:A": {"ssl_verify_upstream_trusted_ca": fa},
        "dir:A": {"ssl_verify_upstream_trusted_confdir": da},
        "file:B": {"ssl_verify_upstream_trusted_ca": fb},
        "file:A+dir:B": {"ssl_verify_upstream_trusted_ca": fa, "ssl_verify_upstream_trusted_confdir": db},
        "file:AB": {"ssl_verify_upstream_trusted_ca": fab},
        "default": {},
    }
    _P.update(env=env, chains=chains, keyfile=keyfile, opts=opts, client_cert=cc)
    return _P


def server_peer(kind, tls):
    p = setup()
    k = (kind, tls)
    if k not in _CTX:
        _CTX[k] = tp.std_server_context(p["chains"][kind], p["keyfile"], tls)
    return tp.StdPeer(_CTX[k], True)


# ---------------------------------------------------------------------------
# one case


def id_class(identity):
    return ALL_IDS[identity][0]


def run_case(c, t: Tally, verbose=False):
    p = setup()
    kind, identity, src, trust, insecure, tls, opens, ccert = c["kind"], c["id"], c["src"], c["trust"], c["insecure"], c["tls"], c["opens"], c["client_cert"]
    accept, why = ref(kind, identity, trust, insecure, src)
    opts = dict(p["opts"][trust], ssl_insecure=insecure)
    if ccert:
        opts["client_certs"] = p["client_cert"]["leaf" if ccert is True else ccert]
    tp.activate(p["env"], **opts)
    if src == "address":
        kw = dict(sni=None, address=(identity, 443))
    elif src == "client_sni":
        kw = dict(sni=identity, address=(OTHER_ADDR, 443))
    elif src == "no_name":
        # an addon (or `server.sni = ""`, the documented way to suppress the SNI) leaves no name to verify; the address is all there is
        kw = dict(sni=None, server_sni="", address=(identity, 443))
    elif src == "upstream_proxy":
        # --mode upstream:https://<identity>:8080 - the verified connection is the one to the proxy, not context.server
        kw = dict(sni="origin.example.net", address=("origin.example.net", 443), proxy_address=(identity, 8080))
    else:
        kw = dict(sni="unrelated.example.net", server_sni=identity, address=(OTHER_ADDR, 443))
    rig = tp.Rig("server", p["env"], child_opens=opens, greeting=GREETING, **kw)
    peer = server_peer(kind, tls)
    rig.start()
    for _ in range(12):
        out = rig.take()
        peer.feed(out)
        back = peer.step()
        if back and rig.tls_conn.state is not tp.ConnectionState.CLOSED:
            rig.data(back)
        elif not out:
            break
    hooks = rig.hook_names()
    established = hooks.count("tls_established_server") == 1 and rig.tls_conn.tls_established
    if established and rig.crash is None:
        rig.data(peer.write(REPLY))
        peer.feed(rig.take())
        peer.step()
    failed = [s for n, s in rig.hooks if n == "tls_failed_server"]
    err = rig.tls_conn.error
    obs = {"hooks": hooks, "error": err, "open_result": rig.open_result, "server_decrypted": len(peer.plain), "server_handshake_done": peer.done,
           "conn_state": rig.tls_conn.state.name, "crash": rig.crash, "addon_errors": rig.addon_errors, "inner_layer_got": len(rig.child_rx)}
    if verbose:
        print("  reference: accept=%s refusal reasons=%s" % (accept, why))
        print("  observed : %s" % obs)
        print("  server.sni=%r alpn_offers=%r peer error=%r" % (rig.tls_conn.sni, rig.tls_conn.alpn_offers, peer.error))
    f = {"kind": kind, "id_kind": id_class(identity), "src": src, "trust": trust, "insecure": insecure, "expect": "accept" if accept else "refuse", "why": "+".join(why) if not insecure else "insecure",
         "client_cert": ccert}
    ran = peer.fed > 0
    # an exception inside the addon's hook is caught and logged by the real AddonManager (that is how tls_start_server refuses
    # "no name to verify"); what happens next is judged by the outcome clauses.  An exception out of the layers is a crash.
    t.judge("no_crash", rig.crash is None, f, c, "no exception out of the proxy layers", {"crash": rig.crash, "addon_errors": rig.addon_errors})
    if accept:
        ok = established and not failed and rig.crash is None and (not opens or rig.open_result == ("ok",))
        t.judge("accepts_insecure" if (insecure and why) else "accepts_valid_chain", ok, f, c, "handshake completes", obs)
        moved = bytes(peer.plain) == GREETING and bytes(rig.child_rx) == REPLY
        if ok:
            t.judge("app_data_transferred", moved, f, c, "request reaches the server, reply reaches the inner layer", obs)
        t.case(c if len(t.samples) < 1 else None, nontrivial=ran and ok and moved, key=c)
        t.outcome(["accept", kind, id_class(identity), trust, insecure, ok])
        return
    refused = not established and not rig.tls_conn.tls_established and "tls_established_server" not in hooks and rig.tls_conn.state is tp.ConnectionState.CLOSED
    if opens:
        refused = refused and rig.open_result is not None and rig.open_result[0] == "err"
    t.judge("handshake_fails", refused, f, c, "no TLS with this server, connection closed", obs)
    hook_ok = len(failed) == 1 and bool(failed[0]["error"]) and not failed[0]["established"] and bool(err)
    if opens:
        hook_ok = hook_ok and rig.open_result is not None and rig.open_result[0] == "err" and bool(rig.open_result[1])
    t.judge("tls_failed_server_hook_and_error_set", hook_ok, f, c, "exactly one tls_failed_server with conn.error set (and an error reply to the inner layer)", obs)
    t.judge("no_app_data_reaches_server", len(peer.plain) == 0 and not peer.done, f, c, "the server decrypts nothing", obs)
    rc = reason_class(err)
    if err and src != "no_name" and rc not in why:
        t.note("refusal reason %r where the reference expected one of %s (kind=%s id=%s)" % (rc, why, kind, id_class(identity)))
    t.case(c if len(t.samples) < 2 else None, nontrivial=ran and refused, key=c)
    t.outcome(["refuse", kind, id_class(identity), trust, rc, refused])


def chunk_fn(groups):
    t = Tally()
    for g in groups:
        for c in g:
            run_case(c, t)
    return t


def cases(tier):
    thorough = tier == "thorough"
    kinds = list(KINDS) + (list(THOROUGH_KINDS) if thorough else [])
    ids = list(IDENTITIES) + (list(THOROUGH_IDENTITIES) if thorough else [])
    groups = []
    for trust in TRUSTS:
        for insecure in (False, True):
            for ccert in (False, "leaf", "bundle"):
                if ccert and not (trust in ("file:A", "default") or thorough):
                    continue
                for kind in kinds:
                    g = []
                    for identity in ids:
                        srcs = ["address"] + (["client_sni"] if id_class(identity) in ("dns", "dns-upper", "idn") else []) + ["upstream_proxy", "no_name"] + (["server_sni"] if thorough else [])
                        for src in srcs:
                            for tls in ("1.3", "1.2"):
                                for opens in (True, False):
                                    if ccert and not thorough and (tls, opens) != ("1.3", True):
                                        continue
                                    g.append({"kind": kind, "id": identity, "src": src, "trust": trust, "insecure": insecure, "tls": tls, "opens": opens, "client_cert": ccert})
                    groups.append(g)
    return groups


def run(ctx):
    setup()
    groups = cases(ctx.tier)
    n = sum(len(g) for g in groups)
    thorough = ctx.thorough
    ctx.bounds = {
        "certificate_kinds": list(KINDS) + (list(THOROUGH_KINDS) if thorough else []),
        "identities": list(IDENTITIES) + (list(THOROUGH_IDENTITIES) if thorough else []),
        "identity_source": ["server address", "client SNI (DNS identities)", "address of an upstream HTTPS proxy (ServerTLSLayer over a connection that is not context.server)",
                            "no name at all (server.sni == '' with a name or IP address): refusal expected unless ssl_insecure"]
        + (["server.sni preset by an addon"] if thorough else []),
        "trust_configuration": TRUSTS, "ssl_insecure": [False, True], "tls_versions": ["1.3", "1.2"], "connection_opened_by": ["inner layer (OpenConnection)", "already open (eager)"],
        "client_certs": ctx.pick("unset; key+certificate PEM / PEM bundle that also carries the client certificate's issuing CA (root B), for trust file:A and default (TLS 1.3, inner layer opens)",
                                 "unset / key+certificate PEM / PEM bundle with the issuing CA (root B); full product"),
        "cases": n,
    }
    # reference self-test: the table must contain both verdicts for every kind of refusal reason
    seen = set()
    for g in groups:
        for c in g:
            a, why = ref(c["kind"], c["id"], c["trust"], c["insecure"], c["src"])
            seen.add((a, tuple(why)) if not c["insecure"] else ("insecure", bool(why)))
    for need in [(True, ()), (False, ("name",)), (False, ("chain",)), (False, ("time",)), ("insecure", True)]:
        if need not in seen:
            raise HarnessError("reference table lacks a case of class %r" % (need,))
    ctx.log("%d handshakes in %d groups" % (n, len(groups)))
    par.pmap_tally(chunk_fn, groups, ctx.tally, nchunks=128)
    ctx.tally.add("real_handshakes", n)


def replay(case, t: Tally, verbose=False):
    setup()
    run_case(case, t, verbose=verbose)
