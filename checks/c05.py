"""C05 - HTTP/2 streams are isolated and correctly mapped.

Engine X (schedules) on the real stack: the real ProxyConnectionHandler on the virtual
loop, with the real HttpLayer / Http2Server / Http2Client (or Http1Client for the
H2->H1 variant), is put between two independent peers:

    hyper-h2 client peer  <->  mitmproxy  <->  hyper-h2 server peer (or scripted HTTP/1 servers)

2-3 concurrent client streams carry a per-stream marker in path, header, body chunks and
trailer; the server peer answers every request it decodes with the marker *it* saw.
The environment chooses, at every point, which stream sends its next frame (HEADERS,
DATA, trailers, END_STREAM, RST_STREAM), which response frame the server sends next,
when a withheld WINDOW_UPDATE is released, when the server's SETTINGS arrive or lower
MAX_CONCURRENT_STREAMS, and when a pending connect completes.  Executions are explored
by deviation-bounded DFS (`_dev_rec`): index 0 is the canonical default (lowest stream
first, client before server), every other enabled action is a deviation; small
configurations are explored with an unbounded deviation budget, i.e. completely.
"""
from __future__ import annotations

import gc

from mitmproxy.proxy.layers import http as http_layer
from mitmproxy.proxy.layers.http import HTTPMode

from vmc import par
from vmc.drivers import h1
from vmc.drivers.world import World
from vmc.explore import _dev_rec
from vmc.peers.h2peer import SC, H2Peer
from vmc.refs import http1ref
from vmc.tally import HarnessError, Tally, digest

META = {
    "level": "model_checking",
    "technique": "deviation-bounded / complete DFS over frame-level schedules of 2-3 concurrent HTTP/2 streams on the real ConnectionHandler+HttpLayer (virtual loop) between independent hyper-h2 peers; per-stream markers and a step-wise open-stream monitor at the server peer",
    "claim": "for every explored interleaving of per-stream HEADERS/DATA/trailers/END/RST, server responses in any order, withheld window updates and SETTINGS that set or lower MAX_CONCURRENT_STREAMS, every flow and every forwarded message carries only its own stream's marker, responses and resets arrive on the requesting stream only, server streams are a bijection, the peer never sees more open streams than the limit mitmproxy knows, queued streams open in arrival order, and every undisturbed stream completes exactly once",
    "rule": "an execution is (configuration, choice sequence); distinct = distinct pair; non-trivial = at least two streams were concurrently open at mitmproxy or a stream had to wait for capacity / flow-control window",
    "assumptions": [
        "hooks complete immediately (held hooks: C11); connection loss / GOAWAY is not in the alphabet (the statement quantifies over frames, resets, window updates and settings)",
        "the server peer answers a request only after it has received it completely (RST may come any time after the head); in `early` configurations (streamed request bodies) it may answer and end its side as soon as it has the request head, while the client is still sending the body",
        "bytes between mitmproxy and a peer are delivered in order without loss; segmentation modes: whole writes, halves, single bytes, coalesced writes",
        "H2->H1 variant: request bodies carry content-length and no trailers (HTTP/1 translation of other messages is C06's subject)",
    ],
}

HOST = b"example.com"

# ---------------------------------------------------------------------------------------------- scripts
CLIENT_SHAPES = {
    "g": [("H", True)],
    "ge": [("H", False), ("E",)],
    "p1": [("H", False), ("D", 0, True)],
    "p2": [("H", False), ("D", 0, False), ("D", 1, True)],
    "pe": [("H", False), ("D", 0, False), ("E",)],
    "pt": [("H", False), ("D", 0, False), ("T",)],
    "r0": [("H", False), ("R",)],
    "r1": [("H", False), ("D", 0, False), ("R",)],
    "rA": [("H", False), ("D", 0, True), ("R",)],
}
SERVER_SHAPES = {
    "h": [("H", True)],
    "d1": [("H", False), ("D", 0, True)],
    "d2": [("H", False), ("D", 0, False), ("D", 1, True)],
    "dt": [("H", False), ("D", 0, False), ("T",)],
    "x0": [("R",)],
    "x1": [("H", False), ("R",)],
    "x2": [("H", False), ("D", 0, False), ("R",)],
}
# HTTP/1 upstream: list of segments; "EOF" closes the connection
H1_SHAPES = {
    "h": ["head0"],
    "d1": ["head+body"],
    "d2": ["head", "body"],
    "ch": ["headch", "chunk0", "chunk1+last"],
    "eof": ["headeof+body", "EOF"],
    "x0": ["EOF"],
    "x1": ["head", "EOF"],
}


def mark(i):
    return b"m%d" % (i + 1)


def req_chunk(m, k):
    return m + b"-b%d." % k


def resp_chunk(m, k):
    return m + b"-r%d." % k


def req_body(m, shape):
    return b"".join(req_chunk(m, a[1]) for a in CLIENT_SHAPES[shape] if a[0] == "D")


def resp_body(m, shape, up):
    if up == "h2":
        return b"".join(resp_chunk(m, a[1]) for a in SERVER_SHAPES[shape] if a[0] == "D")
    return {"h": b"", "d1": resp_chunk(m, 0), "d2": resp_chunk(m, 0), "ch": resp_chunk(m, 0) + resp_chunk(m, 1),
            "eof": resp_chunk(m, 0), "x0": b"", "x1": resp_chunk(m, 0)}[shape]


def client_resets(shape):
    return any(a[0] == "R" for a in CLIENT_SHAPES[shape])


def server_resets(shape):
    return shape.startswith("x")


# ---------------------------------------------------------------------------------------------- configuration
DEFAULT_CFG = {
    "up": "h2",          # upstream protocol
    "cs": ["p1", "p1"],  # client stream shapes
    "ss": ["d1", "d1"],  # response shapes (by marker)
    "limit": None,       # MAX_CONCURRENT_STREAMS in the server's first SETTINGS (None: hyper-h2's default 100)
    "lower": None,       # a later SETTINGS frame that changes the limit to this value (lower *or* higher than `limit`)
    "stream": "none",    # none | req | resp | both : flow.request.stream / flow.response.stream
    "win": None,         # None: peers grant window at once; int: INITIAL_WINDOW_SIZE of both peers, grants are environment actions
    "seg": "whole",      # whole | mid | bytes | coalesce
    "sset": "imm",       # imm | late : when the server's connection preface (first SETTINGS) is delivered
    "connect": "auto",   # auto | manual
    "early": False,      # may the server answer (and end / reset) before the streamed request body is complete?
}


def full_cfg(cfg):
    c = dict(DEFAULT_CFG)
    c.update(cfg)
    return c


def cfg_features(cfg):
    kinds = []
    if any(client_resets(s) for s in cfg["cs"]):
        kinds.append("crst")
    if any(server_resets(s) for s in cfg["ss"]):
        kinds.append("srst")
    return {
        "up": cfg["up"], "n": len(cfg["cs"]), "limit": cfg["limit"] if cfg["limit"] is not None else "default",
        "lower": cfg["lower"] is not None,
        "change": "-" if cfg["lower"] is None else ("raise" if cfg["lower"] > (cfg["limit"] if cfg["limit"] is not None else 100) else "lower"),
        "stream": cfg["stream"], "win": cfg["win"] is not None, "seg": cfg["seg"],
        "resets": "+".join(kinds) or "-", "sset": cfg["sset"], "connect": cfg["connect"], "early": bool(cfg.get("early")),
        "trailers": any(s == "pt" for s in cfg["cs"]) or any(s == "dt" for s in cfg["ss"]),
    }


def _factory(ctx):
    ctx.client.alpn = b"h2"
    return http_layer.HttpLayer(ctx, HTTPMode.regular)


def make_policy(cfg):
    up, stream = cfg["up"], cfg["stream"]

    def policy(name, data, world):
        if name == "server_connect":
            if up == "h2":
                data.server.alpn = b"h2"
        elif name == "requestheaders":
            if stream in ("req", "both"):
                data.request.stream = True
        elif name == "responseheaders":
            if stream in ("resp", "both"):
                data.response.stream = True

    return policy


class Up2:
    """one upstream HTTP/2 connection: the mock socket and the server peer behind it"""

    def __init__(self, end, cfg):
        st = {}
        if cfg["limit"] is not None:
            st[SC.MAX_CONCURRENT_STREAMS] = cfg["limit"]
        if cfg["win"] is not None:
            st[SC.INITIAL_WINDOW_SIZE] = cfg["win"]
        self.end = end
        self.peer = H2Peer(False, settings=st)
        self.pos = 0           # bytes of end.w.data already fed to the peer
        self.outbox = bytearray(self.peer.start())
        self.preface_out = cfg["sset"] == "imm"   # may the outbox be delivered yet?
        self.known_limit = None  # the limit mitmproxy has been told (None: nothing delivered yet)
        self.pending_limits = []  # [(byte offset in total server output, limit)]
        self.sent = len(self.outbox)  # total bytes ever put into the outbox
        self.delivered = 0
        self.pending_limits.append((self.sent, cfg["limit"] if cfg["limit"] is not None else 100))
        self.heads_checked = 0
        self.lowered = False
        self.marker_of: dict[int, bytes] = {}


class Up1:
    """one upstream HTTP/1 connection"""

    def __init__(self, end):
        self.end = end
        self.prog = 0
        self.marker = None


class Sys:
    def __init__(self, cfg, verbose=False):
        self.cfg = cfg
        self.verbose = verbose
        self.n = len(cfg["cs"])
        self.w = World(mode="regular", opts={"http2_ping_keepalive": 0}, policy=make_policy(cfg), snap=h1.http_snap,
                       auto_connect=True if cfg["connect"] == "auto" else None, layer_factory=_factory)
        st = {}
        if cfg["win"] is not None:
            st[SC.INITIAL_WINDOW_SIZE] = cfg["win"]
        self.c = H2Peer(True, settings=st)
        self.cpos = 0
        self.coutbox = bytearray()
        self.cprog = [0] * self.n
        self.sid = [None] * self.n
        self.sprog = [0] * self.n       # response script progress per marker index
        self.ups: list = []             # Up2 / Up1 in connection order
        self.limit_viol = []
        self.problems = []              # harness-visible protocol problems (peer connection errors)
        self.concurrent_seen = 0
        self.waited = False
        self.trace = []

    # ---------------------------------------------------------------- plumbing
    def start(self):
        self.w.start()
        self.coutbox += self.c.start()
        self.flush_client()
        self.sync()

    def _deliver(self, fn, data):
        seg = self.cfg["seg"]
        data = bytes(data)
        if not data:
            return
        if seg == "bytes":
            for i in range(len(data)):
                fn(data[i:i + 1])
        elif seg == "mid" and len(data) > 1:
            k = len(data) // 2
            fn(data[:k])
            fn(data[k:])
        else:
            fn(data)

    def flush_client(self):
        if self.coutbox:
            data, self.coutbox = bytes(self.coutbox), bytearray()
            if not self.w.client.r.eof:
                self._deliver(self.w.client_send, data)

    def flush_up(self, u):
        if isinstance(u, Up2) and u.outbox and u.preface_out:
            data, u.outbox = bytes(u.outbox), bytearray()
            if u.end.state == "open" and not u.end.r.eof and not u.end.w.closed:
                self._deliver(lambda d: self.w.server_send(u.end, d), data)
            u.delivered += len(data)
            while u.pending_limits and u.pending_limits[0][0] <= u.delivered:
                u.known_limit = u.pending_limits.pop(0)[1]

    def sync(self):
        """feed what mitmproxy wrote to the peers; protocol-level replies (SETTINGS ACK, automatic window grants)
        go back at once (or into the outbox when writes are coalesced)"""
        for _ in range(200):
            moved = False
            for e in self.w.servers:
                if e.state == "open" and not any(u.end is e for u in self.ups):
                    self.ups.append(Up2(e, self.cfg) if self.cfg["up"] == "h2" else Up1(e))
                    moved = True
            data = self.w.client.w.data
            if len(data) > self.cpos:
                new, self.cpos = data[self.cpos:], len(data)
                self.c.receive(new)
                if self.cfg["win"] is None:
                    for sid in list(self.c.unacked):
                        self.coutbox += self.c.release(sid)
                self.coutbox += self.c.out()
                moved = True
            for u in self.ups:
                if isinstance(u, Up2):
                    data = u.end.w.data
                    if len(data) > u.pos:
                        new, u.pos = data[u.pos:], len(data)
                        u.peer.receive(new)
                        if self.cfg["win"] is None:
                            for sid in list(u.peer.unacked):
                                self._put(u, u.peer.release(sid))
                        self._put(u, u.peer.out())
                        self.check_heads(u)
                        moved = True
            if self.cfg["seg"] != "coalesce":
                if self.coutbox:
                    self.flush_client()
                    moved = True
                for u in self.ups:
                    if isinstance(u, Up2) and u.outbox and u.preface_out:
                        self.flush_up(u)
                        moved = True
            if not moved:
                break
        else:
            raise HarnessError("peers and proxy do not settle")
        open_up = sum(u.peer.open_now() for u in self.ups if isinstance(u, Up2)) if self.cfg["up"] == "h2" else \
            sum(1 for u in self.ups if u.end.state == "open" and not u.end.w.closed)
        self.concurrent_seen = max(self.concurrent_seen, open_up)

    def _put(self, u, data):
        if data:
            u.outbox += data
            u.sent += len(data)

    def check_heads(self, u):
        p = u.peer
        for sid, n in p.open_at_head[u.heads_checked:]:
            m = self.marker_from_headers(p.streams[sid]["headers"])
            u.marker_of[sid] = m
            if u.known_limit is not None and n > u.known_limit:
                self.limit_viol.append({"stream": sid, "marker": m, "open": n, "limit": u.known_limit})
        u.heads_checked = len(p.open_at_head)
        if p.conn_error:
            self.problems.append("server peer: " + p.conn_error)

    @staticmethod
    def marker_from_headers(headers):
        for n, v in headers or []:
            if n == b":path":
                return v[1:]
        return None

    # ---------------------------------------------------------------- locating a marker upstream
    def find_up2(self, mi):
        m = mark(mi)
        for u in self.ups:
            if isinstance(u, Up2):
                for sid, mm in u.marker_of.items():
                    if mm == m:
                        return u, sid
        return None, None

    def find_up1(self, mi):
        m = mark(mi)
        for u in self.ups:
            if isinstance(u, Up1):
                if u.marker is None:
                    msgs, verdict = http1ref.parse_requests(u.end.w.data)
                    if msgs:
                        u.marker = msgs[0]["start"][1][1:]
                        u.complete = verdict == "ok"
                if u.marker == m:
                    return u
        return None

    # ---------------------------------------------------------------- enabled actions (canonical order)
    def enabled(self):
        cfg = self.cfg
        acts = []
        w = self.w
        for k, _e in enumerate(w.pending_connects()[:2]):
            acts.append(("connect", k))
        # client frames: stream ids must be opened in increasing order
        for i in range(self.n):
            script = CLIENT_SHAPES[cfg["cs"][i]]
            if self.cprog[i] >= len(script) or self.c.dead or w.client.w.closed:
                continue
            a = script[self.cprog[i]]
            if a[0] == "H":
                if i == 0 or self.sid[i - 1] is not None:
                    acts.append(("c", i))
            elif a[0] == "R":
                s = self.c.conn.streams.get(self.sid[i])
                if s is not None and not s.closed:
                    acts.append(("c", i))
            elif self._client_can(i, a):
                acts.append(("c", i))
        # the server's connection preface
        for k, u in enumerate(self.ups):
            if isinstance(u, Up2) and not u.preface_out:
                acts.append(("sset", k))
        # server response frames
        for mi in range(self.n):
            if cfg["up"] == "h2":
                if self._server_can(mi):
                    acts.append(("s", mi))
            else:
                if self._h1_can(mi):
                    acts.append(("s", mi))
        # lowering the limit
        if cfg["lower"] is not None:
            for k, u in enumerate(self.ups):
                if isinstance(u, Up2) and u.preface_out and not u.lowered and not u.peer.dead:
                    acts.append(("lower", k))
        # flow-control grants
        if cfg["win"] is not None:
            for k, u in enumerate(self.ups):
                if isinstance(u, Up2) and u.preface_out and not u.peer.dead:
                    for sid in sorted(u.peer.unacked):
                        if u.peer.unacked[sid] > 0:
                            acts.append(("sgrant", k, sid))
            if not self.c.dead:
                for sid in sorted(self.c.unacked):
                    if self.c.unacked[sid] > 0:
                        acts.append(("cgrant", sid))
        return acts

    def _client_can(self, i, a):
        sid = self.sid[i]
        if sid is None or not self.c.can_send(sid):
            return False
        if a[0] == "D":
            need = len(req_chunk(mark(i), a[1]))
            return self.c.conn.local_flow_control_window(sid) >= need
        return True

    def _server_can(self, mi):
        script = SERVER_SHAPES[self.cfg["ss"][mi]]
        if self.sprog[mi] >= len(script):
            return False
        u, sid = self.find_up2(mi)
        if u is None or not u.preface_out:
            return False
        a = script[self.sprog[mi]]
        st = u.peer.streams[sid]
        if st["reset"] is not None or u.peer.dead:
            return False
        if a[0] == "R":
            s = u.peer.conn.streams.get(sid)
            return s is not None and not s.closed
        if not st["ended"] and not self.cfg.get("early"):
            return False
        if not u.peer.can_send(sid):
            return False
        if a[0] == "D":
            return u.peer.conn.local_flow_control_window(sid) >= len(resp_chunk(mark(mi), a[1]))
        return True

    def _h1_can(self, mi):
        script = H1_SHAPES[self.cfg["ss"][mi]]
        u = self.find_up1(mi)
        if u is None or u.prog >= len(script):
            return False
        if u.end.state != "open" or u.end.r.eof or u.end.w.closed:
            return False
        msgs, verdict = http1ref.parse_requests(u.end.w.data)
        return verdict == "ok" and len(msgs) >= 1

    # ---------------------------------------------------------------- applying an action
    def apply(self, a):
        kind = a[0]
        self.trace.append(a)
        if self.cfg["seg"] == "coalesce":
            # a write of one side is put on the wire before the other side acts
            if kind == "c" or kind == "cgrant":
                for u in self.ups:
                    self.flush_up(u)
                self.sync()
            elif kind != "connect":
                self.flush_client()
                self.sync()
        if kind == "connect":
            pend = self.w.pending_connects()
            if a[1] < len(pend):
                self.w.connect_ok(pend[a[1]])
        elif kind == "c":
            self.client_step(a[1])
        elif kind == "sset":
            u = self.ups[a[1]]
            u.preface_out = True
            self.flush_up(u)
        elif kind == "s":
            if self.cfg["up"] == "h2":
                if self._server_can(a[1]):
                    self.server_step(a[1])
            else:
                if self._h1_can(a[1]):
                    self.h1_step(a[1])
        elif kind == "lower":
            u = self.ups[a[1]]
            u.lowered = True
            self._put(u, u.peer.settings({SC.MAX_CONCURRENT_STREAMS: self.cfg["lower"]}))
            u.pending_limits.append((u.sent, self.cfg["lower"]))
        elif kind == "sgrant":
            u = self.ups[a[1]]
            self._put(u, u.peer.release(a[2]))
        elif kind == "cgrant":
            self.coutbox += self.c.release(a[1])
        self.sync()

    def client_step(self, i):
        cfg = self.cfg
        m = mark(i)
        script = CLIENT_SHAPES[cfg["cs"][i]]
        a = script[self.cprog[i]]
        if a[0] != "H" and a[0] != "R" and not self._client_can(i, a):
            return  # became impossible after a coalesced flush (stream was reset meanwhile)
        self.cprog[i] += 1
        c = self.c
        if a[0] == "H":
            sid = self.sid[i] = c.next_stream_id()
            body = req_body(m, cfg["cs"][i])
            fields = [(b":method", b"POST" if len(script) > 1 else b"GET"), (b":scheme", b"http"), (b":authority", HOST),
                      (b":path", b"/" + m), (b"x-m", m)]
            if cfg["up"] == "h1" and len(script) > 1:
                ends = any(x[0] in ("E", "T") or (x[0] in ("H", "D") and x[-1] is True) for x in script)
                declared = len(body) if ends else len(body) + 7  # a stream reset mid-body had announced more
                fields.append((b"content-length", b"%d" % declared))
            self.coutbox += c.headers(sid, fields, end=a[1])
        elif a[0] == "D":
            self.coutbox += c.data(self.sid[i], req_chunk(m, a[1]), end=a[2])
        elif a[0] == "E":
            self.coutbox += c.data(self.sid[i], b"", end=True)
        elif a[0] == "T":
            self.coutbox += c.trailers(self.sid[i], [(b"x-t", m)])
        elif a[0] == "R":
            s = c.conn.streams.get(self.sid[i])
            if s is not None and not s.closed:
                self.coutbox += c.reset(self.sid[i])

    def server_step(self, mi):
        u, sid = self.find_up2(mi)
        m = u.marker_of[sid]  # the server answers with the marker *it* decoded
        script = SERVER_SHAPES[self.cfg["ss"][mi]]
        a = script[self.sprog[mi]]
        self.sprog[mi] += 1
        p = u.peer
        if a[0] == "H":
            self._put(u, p.headers(sid, [(b":status", b"200"), (b"x-m", m)], end=a[1]))
        elif a[0] == "D":
            self._put(u, p.data(sid, resp_chunk(m, a[1]), end=a[2]))
        elif a[0] == "T":
            self._put(u, p.trailers(sid, [(b"x-t", m)]))
        elif a[0] == "R":
            self._put(u, p.reset(sid, 2))

    def h1_step(self, mi):
        u = self.find_up1(mi)
        m = u.marker
        shape = self.cfg["ss"][mi]
        seg = H1_SHAPES[shape][u.prog]
        u.prog += 1
        body = resp_body(m, shape, "h1")
        cl = b"HTTP/1.1 200 OK\r\nx-m: " + m + b"\r\ncontent-length: %d\r\n\r\n" % len(body)
        out = {
            "head0": b"HTTP/1.1 200 OK\r\nx-m: " + m + b"\r\ncontent-length: 0\r\n\r\n",
            "head+body": cl + body,
            "head": cl,
            "body": body,
            "headch": b"HTTP/1.1 200 OK\r\nx-m: " + m + b"\r\ntransfer-encoding: chunked\r\n\r\n",
            "chunk0": b"%x\r\n%s\r\n" % (len(resp_chunk(m, 0)), resp_chunk(m, 0)),
            "chunk1+last": b"%x\r\n%s\r\n0\r\n\r\n" % (len(resp_chunk(m, 1)), resp_chunk(m, 1)),
            "headeof+body": b"HTTP/1.1 200 OK\r\nx-m: " + m + b"\r\n\r\n" + body,
            "EOF": None,
        }[seg]
        if out is None:
            u.end.r.eof = True
            self.w.server_eof(u.end)
        else:
            self._deliver(lambda d: self.w.server_send(u.end, d), out)

    def finish(self):
        """end of schedule: put everything still held on the wire"""
        for _ in range(50):
            before = (len(self.w.client.w.data), [len(e.w.data) for e in self.w.servers], len(self.coutbox))
            self.flush_client()
            for u in self.ups:
                self.flush_up(u)
            self.sync()
            after = (len(self.w.client.w.data), [len(e.w.data) for e in self.w.servers], len(self.coutbox))
            if before == after and not self.coutbox and not any(isinstance(u, Up2) and u.outbox and u.preface_out for u in self.ups):
                break

    def state_digest(self):
        ups = []
        for u in self.ups:
            if isinstance(u, Up2):
                ups.append([u.peer.log, u.known_limit, len(u.outbox), u.preface_out])
            else:
                ups.append([u.end.w.data, u.prog, u.end.w.closed])
        return [self.c.log, ups, [n for n, _ in self.w.hooks], self.cprog, self.sprog, len(self.coutbox)]


# ---------------------------------------------------------------------------------------------- the execution
class Exec:
    def __init__(self, cfg):
        self.cfg = full_cfg(cfg)

    def run(self, prefix, t: Tally, verbose=False):
        cfg = self.cfg
        s = Sys(cfg, verbose)
        choices, widths, costs = [], [], []
        try:
            s.start()
            for _ in range(400):
                acts = s.enabled()
                if not acts:
                    # nothing enabled: held writes go out, which may enable more
                    before = s.state_digest()
                    s.finish()
                    if s.enabled() and digest(before) != digest(s.state_digest()):
                        continue
                    break
                if len(acts) > 1:
                    k = prefix[len(choices)] if len(choices) < len(prefix) else 0
                    if k >= len(acts):
                        raise HarnessError("choice %d out of range (%d enabled) while replaying %r" % (k, len(acts), prefix))
                    choices.append(k)
                    widths.append(len(acts))
                    costs.append(1)
                    a = acts[k]
                else:
                    a = acts[0]
                if a[0] in ("sgrant", "cgrant"):
                    s.waited = True  # somebody's DATA was held back by flow control
                s.apply(a)
                t.transitions += 1
                t.state(s.state_digest())
            else:
                raise HarnessError("schedule does not terminate")
            s.finish()
            judge(s, choices, t, verbose)
            s.w.close_out()
        finally:
            s.w.dispose()
        return choices, widths, costs


# ---------------------------------------------------------------------------------------------- oracle
def client_outcome(c: H2Peer, sid):
    st = c.streams.get(sid)
    if st is None:
        return "nothing", None
    if st["reset"] is not None:
        return "reset", st
    if st["ended"]:
        hd = dict(st["headers"] or [])
        if hd.get(b":status") == b"200":
            return "complete", st
        if hd.get(b"server", b"").startswith(b"mitmproxy"):
            return "error_response", st
        return "other_response", st
    return "partial", st


def judge(s: Sys, choices, t: Tally, verbose=False):
    cfg = s.cfg
    feats = cfg_features(cfg)
    case = {"cfg": cfg, "choices": list(choices)}
    n = s.n
    w = s.w
    c = s.c
    up = cfg["up"]

    queued = False
    if up == "h2":
        # a stream had to wait iff some head arrived later than the hook that released it; approximated by the limit being reached
        for u in s.ups:
            if isinstance(u, Up2) and u.known_limit is not None and u.peer.max_open_seen >= u.known_limit:
                queued = True
    nontrivial = s.concurrent_seen >= 2 or queued or s.waited
    t.case(case if (len(t.samples) < 2 and any(choices)) else None, nontrivial=nontrivial, key=case)

    if verbose:
        print("config", cfg)
        print("trace", s.trace)
        print("hooks", [nm for nm, _ in w.hooks])
        print("client peer", c.streams, c.conn_error, c.terminated)
        for u in s.ups:
            if isinstance(u, Up2):
                print("server peer", u.peer.streams, u.peer.order, u.peer.open_at_head, u.peer.conn_error, u.peer.terminated, "limit", u.known_limit)
            else:
                print("h1 upstream", u.end.w.data, "closed", u.end.w.closed)
        print("errors", w.errors)

    # -- crashes and protocol errors seen by the independent peers ---------------------------------------
    t.judge("no_crash", not w.errors, feats, case, "no ERROR log / exception in the proxy core", [e[:300] for e in w.errors[:2]])
    perr = []
    if c.conn_error or c.terminated:
        perr.append(("client", c.conn_error, c.terminated))
    for u in s.ups:
        if isinstance(u, Up2) and (u.peer.conn_error or u.peer.terminated):
            perr.append(("server", u.peer.conn_error, u.peer.terminated))
    t.judge("peers_see_valid_h2", not perr, feats, case, "no connection error / GOAWAY at either hyper-h2 peer", perr)

    # -- flows -----------------------------------------------------------------------------------------
    flows = {}  # id -> {hook: snapshot}
    order = []
    for name, snap in w.hooks:
        if snap is None or "request" not in snap:
            continue
        if snap["id"] not in flows:
            flows[snap["id"]] = {}
            order.append(snap["id"])
        flows[snap["id"]].setdefault(name, snap)
    by_marker = {}
    bad_flows = []
    for fid in order:
        f = flows[fid]
        last = f.get("response") or f.get("error") or f.get("request") or f.get("requestheaders")
        rq = last["request"]
        m = rq["path"][1:]
        by_marker.setdefault(m, []).append(fid)
        hd = dict((k.lower(), v) for k, v in rq["fields"])
        mi = int(m[1:]) - 1 if m[:1] == b"m" and m[1:].isdigit() else None
        if mi is None or mi >= n:
            bad_flows.append(("unknown marker", m))
            continue
        if hd.get(b"x-m") != m:
            bad_flows.append(("header", m, hd.get(b"x-m")))
        exp_body = req_body(m, cfg["cs"][mi])
        at_req = f.get("request")
        if at_req is not None:
            r2 = at_req["request"]
            if r2["content"] is not None and not r2["stream"] and r2["content"] != exp_body:
                bad_flows.append(("body", m, r2["content"]))
            want_tr = [[b"x-t", m]] if cfg["cs"][mi] == "pt" else []
            if [list(x) for x in r2["trailers"]] != want_tr:
                bad_flows.append(("trailers", m, r2["trailers"]))
        at_resp = f.get("response")
        if at_resp is not None and "response" in at_resp:
            rs = at_resp["response"]
            rh = dict((k.lower(), v) for k, v in rs["fields"])
            if rh.get(b"x-m") != m:
                bad_flows.append(("response header", m, rh.get(b"x-m")))
            if rs["content"] is not None and not rs["stream"] and rs["content"] != resp_body(m, cfg["ss"][mi], up):
                bad_flows.append(("response body", m, rs["content"]))
            want_tr = [[b"x-t", m]] if (cfg["ss"][mi] == "dt" and up == "h2") else []
            if [list(x) for x in rs["trailers"]] != want_tr:
                bad_flows.append(("response trailers", m, rs["trailers"]))
    t.judge("flow_has_own_stream_content", not bad_flows, feats, case, "every flow: path, header, body, trailers (request and response) carry one marker", bad_flows[:4])
    dup = {m: len(v) for m, v in by_marker.items() if len(v) > 1}
    t.judge("one_flow_per_stream", not dup and len(by_marker) <= n, feats, case, "one flow per client stream", dup)

    # -- what arrived upstream ---------------------------------------------------------------------------
    up_problems = []
    up_markers = []
    reset_up = []
    up_complete = {}  # marker -> did the forwarded request arrive completely (END_STREAM seen, whole body, trailers)?
    if up == "h2":
        for u in s.ups:
            p = u.peer
            for sid in p.order:
                st = p.streams[sid]
                hd = dict(st["headers"])
                m = hd.get(b":path", b"/?")[1:]
                up_markers.append(m)
                up_complete[m] = {"ended": st["ended"], "reset": st["reset"], "body": b"".join(st["data"])}
                mi = int(m[1:]) - 1 if m[:1] == b"m" and m[1:].isdigit() and int(m[1:]) <= n else None
                if mi is None:
                    up_problems.append(("unknown marker", m))
                    continue
                if hd.get(b"x-m") != m:
                    up_problems.append(("header", m, hd.get(b"x-m")))
                body = b"".join(st["data"])
                exp = req_body(m, cfg["cs"][mi])
                creset = client_resets(cfg["cs"][mi])
                if st["ended"] and not creset and body != exp:
                    up_problems.append(("body", m, body))
                if not exp.startswith(body):
                    up_problems.append(("body not a prefix of own stream", m, body))
                want_tr = [(b"x-t", m)] if cfg["cs"][mi] == "pt" else None
                if st["ended"] and st["trailers"] != want_tr:
                    up_problems.append(("trailers", m, st["trailers"]))
                if st["reset"] is not None:
                    reset_up.append(m)
    else:
        for u in s.ups:
            msgs, verdict = http1ref.parse_requests(u.end.w.data)
            if not u.end.w.data:
                continue
            if len(msgs) > 1 or (verdict not in ("ok", "incomplete")):
                up_problems.append(("connection carries more than one / a malformed message", verdict, u.end.w.data[:200]))
            if not msgs:
                # only a partial message (client reset before the body was complete in streaming mode)
                head = u.end.w.data.split(b"\r\n", 1)[0].split(b" ")
                m = head[1][1:] if len(head) > 1 else b"?"
                up_markers.append(m)
                continue
            msg = msgs[0]
            m = msg["start"][1][1:]
            up_markers.append(m)
            mi = int(m[1:]) - 1 if m[:1] == b"m" and m[1:].isdigit() and int(m[1:]) <= n else None
            if mi is None:
                up_problems.append(("unknown marker", m))
                continue
            hd = dict((k.lower(), v) for k, v in msg["fields"])
            if hd.get(b"x-m") != m:
                up_problems.append(("header", m, hd.get(b"x-m")))
            if msg["body"] != req_body(m, cfg["cs"][mi]):
                up_problems.append(("body", m, msg["body"]))
    t.judge("forwarded_request_has_own_stream_content", not up_problems, feats, case, "each server stream: path, header, body, trailers carry one marker and equal what the client sent", up_problems[:4])
    dup_up = sorted(set(m for m in up_markers if up_markers.count(m) > 1))
    t.judge("server_stream_bijection", not dup_up, feats, case, "each client stream on at most one server stream", {"markers_in_open_order": up_markers})

    # -- the limit -----------------------------------------------------------------------------------------
    if up == "h2":
        # two independent counts: the monitor above (limit delivered to mitmproxy vs. streams open at the peer when a
        # head arrives) and hyper-h2's own enforcement of the acknowledged limit (it refuses the stream)
        refused = [u.peer.conn_error for u in s.ups if isinstance(u, Up2) and u.peer.conn_error and "TooManyStreams" in u.peer.conn_error]
        t.judge("open_server_streams_le_limit", not s.limit_viol and not refused, feats, case,
                "open streams at the server peer <= MAX_CONCURRENT_STREAMS known to mitmproxy whenever a stream is opened",
                {"monitor": s.limit_viol[:3], "peer_refused": refused[:1]})

    # -- arrival order ---------------------------------------------------------------------------------------
    if up == "h2":
        hook = "requestheaders" if cfg["stream"] in ("req", "both") else "request"
        arrival = []
        for name, snap in w.hooks:
            if name == hook and snap is not None and "request" in snap:
                m = snap["request"]["path"][1:]
                if m not in arrival:
                    arrival.append(m)
        opened = [m for m in up_markers]
        exp = [m for m in arrival if m in opened]
        t.judge("queued_opened_fifo", opened == exp, feats, case, {"arrival": arrival}, {"opened": opened})

    # -- per client stream: the answer --------------------------------------------------------------------
    clean_all = True
    outcomes = []
    for i in range(n):
        m = mark(i)
        sid = s.sid[i]
        cs, ss = cfg["cs"][i], cfg["ss"][i]
        creset, sreset = client_resets(cs), server_resets(ss)
        f2 = dict(feats, stream_kind=("crst" if creset else "") + ("srst" if sreset else "") or "clean")
        if sid is None:
            outcomes.append("unsent")
            clean_all = False
            continue
        kind, st = client_outcome(c, sid)
        outcomes.append(kind)
        # whatever arrived on this stream must be this stream's answer
        wrong = []
        if st is not None:
            hd = dict(st["headers"] or [])
            if kind in ("complete", "partial", "reset", "other_response") and st["headers"] is not None and hd.get(b":status") == b"200":
                if hd.get(b"x-m") != m:
                    wrong.append(("header", hd.get(b"x-m")))
                body = b"".join(st["data"])
                exp = resp_body(m, ss, up)
                if not exp.startswith(body):
                    wrong.append(("body", body))
                if st["trailers"] is not None and st["trailers"] != [(b"x-t", m)]:
                    wrong.append(("trailers", st["trailers"]))
        t.judge("response_on_request_stream", not wrong, f2, case, "only marker %r on client stream %d" % (m, sid), wrong)
        if not creset and not sreset:
            ok = kind == "complete" and b"".join(st["data"]) == resp_body(m, ss, up) and \
                (st["trailers"] == ([(b"x-t", m)] if (ss == "dt" and up == "h2") else None))
            t.judge("none_lost_none_duplicated", ok, f2, case, "undisturbed stream %d completes with its full response" % sid,
                    {"outcome": kind, "stream": st})
            t.judge("none_lost_upstream", up_markers.count(m) == 1, f2, case, "request %r forwarded exactly once" % m, up_markers)
            if up == "h2" and m in up_complete:
                # every frame of an undisturbed request reaches its own server stream, also the part of a streamed
                # body the client sends after the server has already answered
                uc = up_complete[m]
                t.judge("forwarded_request_complete", uc["ended"] and uc["reset"] is None and uc["body"] == req_body(m, cs), f2, case,
                        "request %r arrives completely (body %r, END_STREAM) on its server stream" % (m, req_body(m, cs)), uc)
        elif sreset and not creset:
            # the server's reset must surface on this stream as a reset or as mitmproxy's own error response
            t.judge("reset_on_request_stream", kind in ("reset", "error_response"), f2, case,
                    "reset or error response on stream %d" % sid, {"outcome": kind, "stream": st})
        if not sreset and kind in ("reset", "error_response") and not creset:
            t.judge("reset_on_request_stream", False, f2, case, "no reset on a stream the server answered", {"outcome": kind, "stream": st})
    # resets upstream only on streams the client reset
    stray = [m for m in reset_up if not client_resets(cfg["cs"][int(m[1:]) - 1])]
    t.judge("upstream_reset_only_for_reset_stream", not stray, feats, case, "RST_STREAM upstream only for client-reset streams", stray)
    t.outcome([outcomes, up_markers, sorted(reset_up), [nm for nm, sn in w.hooks if sn is not None and "request" in sn]])


# ---------------------------------------------------------------------------------------------- configurations
def specs(tier):
    """[(cfg, deviation bound)]; bound 99 = every schedule of the configuration"""
    out = []
    thorough = tier == "thorough"

    def b(q, t):
        return t if thorough else q

    def add(bound, **cfg):
        out.append((cfg, bound))

    FULL = 99
    # 1. two streams, explored completely: the base exchange under each single option
    two = [(["p1", "p1"], ["d1", "d1"]), (["g", "p2"], ["d1", "h"]), (["pt", "p1"], ["dt", "d1"]), (["pe", "ge"], ["d2", "dt"])]
    for cs, ss in two:
        for limit in (None, 1, 2):
            add(FULL, cs=cs, ss=ss, limit=limit)
    for stream in ("req", "resp", "both"):
        for limit in (None, 1):
            add(b(3, FULL), cs=["p2", "p1"], ss=["d2", "d1"], limit=limit, stream=stream)
    # 2. resets (client and server side), with and without the limit
    for cs, ss in [(["r1", "p1"], ["d1", "d1"]), (["rA", "p1"], ["d1", "d1"]), (["p1", "r0"], ["d1", "d1"]),
                   (["p1", "p1"], ["x0", "d1"]), (["p1", "p1"], ["x2", "d1"]), (["p1", "g"], ["d1", "x1"]), (["rA", "p1"], ["x1", "d1"])]:
        for limit in (None, 1):
            add(FULL, cs=cs, ss=ss, limit=limit)
            add(b(2, FULL), cs=cs, ss=ss, limit=limit, stream="both")
        if thorough:
            add(FULL, cs=cs, ss=ss, limit=1, stream="req")
    # 3. lowering the limit mid-run, late settings, manual connect
    for limit, lower in ((None, 1), (2, 1)):
        add(b(3, FULL),cs=["p1", "p1", "g"], ss=["d1", "d1", "h"], limit=limit, lower=lower)
        add(b(2, FULL), cs=["p1", "p1"], ss=["d1", "d1"], limit=limit, lower=lower, stream="req")
        if thorough:
            add(3, cs=["p1", "g", "p1"], ss=["d1", "d1", "d1"], limit=limit, lower=lower, stream="both")
    # 3b. raising the limit mid-run while streams are waiting, followed by further client streams
    add(b(2, 3), cs=["g", "p1", "g", "g"], ss=["h", "d1", "h", "h"], limit=2, lower=3)
    add(b(2, 3), cs=["g", "g", "g", "g"], ss=["h", "h", "h", "h"], limit=1, lower=2, stream="req")
    for limit, lower in ((1, 2), (1, 3)):
        add(b(3, FULL), cs=["p1", "p1", "g"], ss=["d1", "d1", "h"], limit=limit, lower=lower)
        add(b(2, FULL), cs=["g", "g", "g"], ss=["h", "h", "h"], limit=limit, lower=lower, stream="req")
        if limit == 1:
            add(b(2, 4), cs=["p1", "g", "p2"], ss=["d1", "h", "d1"], limit=limit, lower=lower, stream="both")
            add(b(2, 4), cs=["p1", "p1", "g"], ss=["d1", "d1", "h"], limit=limit, lower=lower, seg="coalesce")
    add(b(3, FULL),cs=["p1", "p1", "g"], ss=["d1", "h", "d1"], limit=1, sset="late")
    add(b(2, FULL), cs=["p1", "p1"], ss=["d1", "d1"], limit=1, sset="late", stream="req")
    add(b(3, FULL),cs=["p1", "g", "p1"], ss=["d1", "d1", "h"], limit=2, connect="manual")
    add(b(2, FULL), cs=["p1", "g"], ss=["d1", "d1"], limit=1, connect="manual", sset="late", stream="req")
    # 4. withheld window updates
    for stream in ("none", "both"):
        for limit in (None, 1):
            add(b(2, 4 if (limit == 1 or stream == "none") else 3), cs=["p2", "p1"], ss=["d2", "d1"], win=4, limit=limit, stream=stream)
    add(b(2, 3), cs=["pt", "p1"], ss=["dt", "d1"], win=4, stream="both")
    add(b(2, 4),cs=["pt", "p1"], ss=["dt", "d1"], win=4)
    add(b(2, 4),cs=["r1", "p1"], ss=["d1", "x2"], win=4, stream="both")
    if thorough:
        add(2, cs=["p1", "p1", "p1"], ss=["d1", "d1", "d1"], win=4, limit=1, stream="both")
    # 5. three streams
    three = [(["p1", "p1", "p1"], ["d1", "d1", "d1"]), (["g", "p2", "pt"], ["dt", "h", "d2"]), (["p1", "r1", "p1"], ["d1", "d1", "x1"]),
             (["rA", "p1", "g"], ["d1", "x0", "d1"])]
    for cs, ss in three:
        for limit in (None, 1, 2):
            add(b(2, FULL), cs=cs, ss=ss, limit=limit)
            if thorough or limit == 1:
                add(b(2, 4), cs=cs, ss=ss, limit=limit, stream="both")
    if thorough:
        add(FULL, cs=["p2", "p2", "p2"], ss=["d2", "d2", "d2"], limit=1)
        add(4, cs=["p2", "p2", "p2"], ss=["d2", "d2", "d2"], limit=2, stream="both")
        add(FULL, cs=["g", "g", "g"], ss=["h", "h", "h"], limit=1, stream="req")
        add(FULL, cs=["g", "g", "g"], ss=["h", "h", "h"], limit=2)
    # 6. segmentation
    for seg in ("mid", "bytes", "coalesce"):
        for cs, ss, limit, stream in [(["p1", "p1"], ["d1", "d1"], 1, "none"), (["pt", "g", "p1"], ["dt", "d1", "h"], 2, "none"),
                                      (["p2", "r1"], ["x2", "d1"], None, "both")]:
            add(b(2, FULL),cs=cs, ss=ss, limit=limit, stream=stream, seg=seg)
    add(b(3, FULL),cs=["g", "g", "g"], ss=["h", "h", "h"], limit=2, seg="coalesce")
    add(b(3, FULL),cs=["p1", "p1", "p1"], ss=["d1", "d1", "d1"], limit=1, seg="coalesce", stream="req")
    # 6b. early responses: the server answers (and ends or resets its side) while a streamed request body is still on its way
    for cs, ss in [(["p2", "p1"], ["h", "d1"]), (["p2", "p2"], ["d1", "h"]), (["pt", "p1"], ["dt", "d1"]), (["p2", "p1"], ["x1", "d1"]),
                   (["pe", "p2"], ["d2", "x0"])]:
        for limit in (None, 1):
            for stream in ("req", "both"):
                add(b(2, FULL), cs=cs, ss=ss, limit=limit, stream=stream, early=True)
    add(b(2, 4), cs=["p2", "p2", "g"], ss=["h", "d1", "h"], limit=1, stream="req", early=True)
    add(b(2, 4), cs=["p2", "p1", "p2"], ss=["h", "h", "d1"], limit=2, stream="both", early=True)
    add(b(2, 3), cs=["p2", "p2"], ss=["h", "d1"], limit=1, stream="req", early=True, seg="coalesce")
    add(b(2, 3), cs=["p2", "p2"], ss=["d1", "h"], stream="both", early=True, win=4)
    # 7. HTTP/1 upstream: one connection per stream
    h1s = [(["p1", "p1"], ["d1", "d1"]), (["g", "p2"], ["ch", "eof"]), (["p1", "g"], ["x0", "d2"]), (["r1", "p1"], ["d1", "d1"]),
           (["rA", "g"], ["d2", "x1"])]
    for cs, ss in h1s:
        for stream in ("none", "both"):
            add(b(3, FULL), up="h1", cs=cs, ss=ss, stream=stream)
    add(b(2, FULL),up="h1", cs=["p1", "g", "p2"], ss=["d2", "ch", "eof"])
    add(b(2, 4), up="h1", cs=["p1", "g", "p2"], ss=["d2", "ch", "eof"], connect="manual")
    add(b(2, FULL), up="h1", cs=["p1", "p1"], ss=["d1", "eof"], connect="manual", stream="both")
    add(b(2, FULL),up="h1", cs=["p1", "g", "p1"], ss=["eof", "d1", "x0"], seg="coalesce")
    return out


SUBTREE_CAP = 60000  # safety only: executions per first-level subtree (never reached with the shipped bounds)


class _Capped(Exception):
    pass


class CappedExec(Exec):
    def __init__(self, cfg):
        super().__init__(cfg)
        self.count = 0

    def run(self, prefix, t, verbose=False):
        self.count += 1
        if self.count > SUBTREE_CAP:
            raise _Capped()
        return super().run(prefix, t, verbose)


def chunk_fn(chunk):
    gc.freeze()
    t = Tally()
    for cfg, prefix, used, bound in chunk:
        try:
            _dev_rec(CappedExec(cfg), tuple(prefix), used, bound, t)
        except _Capped:
            t.add("subtrees_capped")
    return t


def run(ctx):
    sp = specs(ctx.tier)
    # everything imported so far is immortal: keep the collector (and, after fork, copy-on-write) away from it
    gc.freeze()
    ctx.bounds = {
        "configurations": len(sp),
        "client_shapes": {k: ["".join(str(x) for x in a) for a in v] for k, v in CLIENT_SHAPES.items()},
        "server_shapes": sorted(SERVER_SHAPES), "h1_shapes": sorted(H1_SHAPES),
        "limits": ["default", 1, 2], "mid_run_settings": ["none", "lowered to 1", "raised to 2 or 3"], "streams": "2-4", "stream": ["none", "req", "resp", "both"], "window": [None, 4],
        "segmentation": ["whole", "mid", "bytes", "coalesce"],
        "deviation_bounds": sorted(set(b for _, b in sp)), "note": "bound 99 = every schedule of that configuration",
    }
    # determinism self-test: the same prefix twice gives identical observations
    for cfg, _b in (sp[0], sp[len(sp) // 2], sp[-1]):
        for prefix in ((), (1,), (0, 1, 1)):
            try:
                a, b = Tally(), Tally()
                ra = Exec(cfg).run(prefix, a)
                rb = Exec(cfg).run(prefix, b)
            except HarnessError:
                continue
            if ra != rb or a.state_set != b.state_set or a.outcomes != b.outcomes or a.clauses != b.clauses:
                raise HarnessError("replaying prefix %r of %r twice gave different observations" % (prefix, cfg))
    # split each configuration at its first choice level so that large ones are spread over the pool
    tasks = []
    t0 = Tally()
    for cfg, bound in sp:
        choices, widths, costs = Exec(cfg).run((), t0)
        t0.executions += 1
        t0.max_depth = max(t0.max_depth, len(choices))
        for i in range(len(choices)):
            if bound < 1:
                continue
            for alt in range(1, widths[i]):
                tasks.append((cfg, tuple(choices[:i]) + (alt,), 1, bound))
                t0.transitions += 1
    ctx.tally.merge(t0)
    ctx.log("%d configurations, %d first-level subtrees" % (len(sp), len(tasks)))
    par.pmap_tally(chunk_fn, tasks, ctx.tally, nchunks=min(len(tasks), 512))
    if ctx.tally.extra.get("subtrees_capped"):
        ctx.cap("%d first-level subtrees stopped at %d executions" % (ctx.tally.extra["subtrees_capped"], SUBTREE_CAP))


def replay(case, t, verbose=False):
    Exec(case["cfg"]).run(tuple(case["choices"]), t, verbose=verbose)
