"""World: the real ProxyConnectionHandler + real Master/AddonManager on the virtual loop.

Nothing of mitmproxy's proxy core is mirrored or re-implemented: the client and
server sockets are mock reader/writer pairs, `asyncio.open_connection` (and the
mitmproxy_rs UDP opener) resolve futures the environment controls, `server.time`
reads the virtual clock, and hooks run through the real `handle_hook` (watchdog
disarm + `wait_for_resume`) -> real `AddonManager.handle_lifecycle` -> real addons
plus a recording `Probe` addon that applies the check's addon *policy* and can
suspend a hook until the environment completes it.

Environment actions are plain method calls followed by `quiesce()`.
"""
from __future__ import annotations

import asyncio
import collections
import gc
import logging

import mitmproxy_rs
from mitmproxy import hooks as mhooks
from mitmproxy import master as mmaster
from mitmproxy import options as moptions
from mitmproxy.addons import core as core_addon
from mitmproxy.addons import next_layer as next_layer_addon
from mitmproxy.addons import proxyserver as proxyserver_addon
from mitmproxy.proxy import mode_servers
from mitmproxy.proxy import mode_specs
from mitmproxy.proxy import server as pserver
from mitmproxy.utils import asyncio_utils

from vmc.vloop import VLoop

_CURRENT: "World | None" = None
_MASTERS: dict = {}
_DISPOSED = 0
_real_open = asyncio.open_connection
_real_udp_open = mitmproxy_rs.udp.open_udp_connection


class _Time:
    def time(self):
        w = _CURRENT
        return w.loop.time() if w is not None else 0.0


async def _fake_open(host, port, local_addr=None, **kw):
    w = _CURRENT
    return await w._open("tcp", host, port)


async def _fake_udp_open(host, port, local_addr=None, **kw):
    w = _CURRENT
    r, wr = await w._open("udp", host, port)
    return UdpStream(r, wr)


def install_patches():
    pserver.time = _Time()
    asyncio.open_connection = _fake_open
    mitmproxy_rs.udp.open_udp_connection = _fake_udp_open


class MReader:
    """read() returns exactly one fed segment; b'' is EOF; an Exception instance is raised"""

    def __init__(self, loop):
        self.loop = loop
        self.buf = collections.deque()
        self.fut = None
        self.eof = False

    async def read(self, n=-1):
        while not self.buf:
            self.fut = self.loop.create_future()
            try:
                await self.fut
            finally:
                self.fut = None
        item = self.buf.popleft()
        if isinstance(item, BaseException):
            raise item
        return item

    def feed(self, item):
        self.buf.append(item)
        if self.fut is not None and not self.fut.done():
            self.fut.set_result(None)

    @property
    def blocked(self):
        return self.fut is not None


class MWriter:
    def __init__(self, peername, sockname, transport="tcp"):
        self.out: list[bytes] = []
        self.closed = False
        self.eof_written = False
        self.peername = peername
        self.sockname = sockname
        self.transport = transport
        self.drain_error: BaseException | None = None
        self.write_after_close = 0

    def write(self, d):
        if self.closed:
            self.write_after_close += 1
        self.out.append(bytes(d))

    async def drain(self):
        if self.drain_error is not None:
            e, self.drain_error = self.drain_error, None
            raise e

    def close(self):
        self.closed = True

    def is_closing(self):
        return self.closed

    def write_eof(self):
        self.eof_written = True

    async def wait_closed(self):
        return

    def get_extra_info(self, k, default=None):
        return {"peername": self.peername, "sockname": self.sockname, "transport_protocol": self.transport}.get(k, default)

    @property
    def data(self):
        return b"".join(self.out)


class UdpStream:
    """stands in for mitmproxy_rs.Stream (reader and writer in one object)"""

    def __init__(self, r: MReader, w: MWriter):
        self._r, self._w = r, w

    async def read(self, n):
        return await self._r.read(n)

    def write(self, d):
        self._w.write(d)

    async def drain(self):
        await self._w.drain()

    def close(self):
        self._w.close()

    def is_closing(self):
        return self._w.is_closing()

    def write_eof(self):
        self._w.write_eof()

    async def wait_closed(self):
        return

    def get_extra_info(self, k, default=None):
        return self._w.get_extra_info(k, default)


class End:
    """one mock socket (client side or one upstream connection)"""

    def __init__(self, loop, peername, sockname, transport="tcp"):
        self.r = MReader(loop)
        self.w = MWriter(peername, sockname, transport)
        self.address = None
        self.connect_fut = None  # pending connect
        self.state = "pending"  # pending | open | refused
        self.transport = transport

    def send(self, data: bytes):
        self.r.feed(data)

    def eof(self):
        self.r.feed(b"")

    def error(self, msg="boom"):
        self.r.feed(OSError(msg))


LIFECYCLE = {"load", "configure", "running", "done", "update", "add_log"}
HOOK_NAMES = sorted(n for n in mhooks.all_hooks if n not in LIFECYCLE)


class Probe:
    """recording addon; one async method per proxy hook, created on demand"""

    def __init__(self, world):
        self.__dict__["world"] = world

    def __getattr__(self, name):
        if name in mhooks.all_hooks and name not in LIFECYCLE:
            w = self.world

            async def handler(data, _name=name):
                await w._on_hook(_name, data)

            return handler
        raise AttributeError(name)


class _LogCatcher(logging.Handler):
    def __init__(self, world):
        super().__init__(logging.DEBUG)
        self.world = world

    def emit(self, record):
        msg = record.getMessage()
        if record.levelno >= logging.ERROR:
            self.world.errors.append(msg + (" :: " + repr(record.exc_info[1]) if record.exc_info else ""))
        self.world.logs.append((record.levelname, msg))


DEFAULT_OPTS = dict(
    # option defaults are the shipped ones; these only make runs hermetic
)


class World:
    def __init__(
        self,
        mode="regular",
        opts=None,
        addons=(),
        policy=None,
        suspend=None,
        snap=None,
        transport="tcp",
        eager=True,
        client_peer=("192.0.2.10", 51000),
        client_sock=("192.0.2.1", 8080),
        layer_factory=None,
        master_key=None,
        auto_connect=None,
        original_dst=("198.51.100.7", 80),
    ):
        global _CURRENT
        install_patches()
        self.loop = VLoop(eager=eager)
        _CURRENT = self
        self.policy = policy  # policy(name, data, world) -> None (may mutate data)
        self.suspend = suspend  # suspend(name, data, world) -> bool
        self.snap = snap or (lambda name, data: None)
        self.auto_connect = auto_connect  # None: environment decides; True/False: resolve immediately
        self.hooks: list = []  # (name, snapshot)
        self.hook_objs: list = []  # (name, data)
        self.suspended: list = []  # [name, data, future]
        self.errors: list[str] = []
        self.logs: list = []
        self.servers: list[End] = []
        self.timeline: list = []  # interleaved record of hooks and writes, for ordering clauses
        self._catch = _LogCatcher(self)
        self._loggers = [logging.getLogger("mitmproxy")]
        for lg in self._loggers:
            lg.addHandler(self._catch)
            lg.setLevel(logging.DEBUG)
            lg.propagate = False

        key = master_key if master_key is not None else ("default" if not addons else None)
        cached = _MASTERS.get(key) if key is not None else None
        if cached is not None:
            self.master, self.probe = cached
            import mitmproxy.ctx as _mctx0

            # addon configure() handlers triggered by options.reset() consult mitmproxy.ctx: point it at this
            # master first (a process may alternate between cached masters with different addon sets)
            _mctx0.master = self.master
            _mctx0.options = self.master.options
            self.master.event_loop = self.loop
            self.probe.__dict__["world"] = self
            self.options = self.master.options
            if self.options.keys() and any(self.options.has_changed(k) for k in self.options.keys()):
                self.options.reset()
        else:
            o = moptions.Options()
            self.master = mmaster.Master(o, event_loop=self.loop)
            self.master._legacy_log_events.uninstall()
            self.master.addons.add(core_addon.Core(), proxyserver_addon.Proxyserver(), next_layer_addon.NextLayer())
            for a in addons:
                self.master.addons.add(a)
            self.probe = Probe(self)
            self.master.addons.add(self.probe)
            self.options = self.master.options
            if key is not None:
                _MASTERS[key] = (self.master, self.probe)
        import mitmproxy.ctx as _mctx

        _mctx.master = self.master
        _mctx.options = self.options
        if opts:
            self.options.update(**opts)
        self.mode = mode_specs.ProxyMode.parse(mode) if isinstance(mode, str) else mode

        self.client = End(self.loop, client_peer, client_sock, transport)
        self.client.state = "open"
        if transport == "udp":
            s = UdpStream(self.client.r, self.client.w)
            r = w = s
        else:
            r, w = self.client.r, self.client.w
        self.handler = mode_servers.ProxyConnectionHandler(self.master, r, w, self.options, self.mode)
        ctx = self.handler.layer.context
        if layer_factory is not None:
            self.handler.layer = layer_factory(ctx)
        else:
            # exactly what ServerInstance.handle_stream does
            inst = mode_servers.ServerInstance.make(self.mode, None)
            self.handler.layer = inst.make_top_layer(ctx)
            if isinstance(self.mode, mode_specs.TransparentMode):
                ctx.client.sockname = original_dst
                ctx.server.address = original_dst
        self.task = None

    # ------------------------------------------------------------------ running
    def start(self):
        def mk():
            self.task = self.loop.create_task(self.handler.handle_client())

        self.loop.call_in_loop(mk)
        self.quiesce()
        return self

    def quiesce(self):
        global _CURRENT
        _CURRENT = self
        return self.loop.quiesce()

    def do(self, fn, *a):
        """perform an environment action inside the loop context, then quiesce"""
        global _CURRENT
        _CURRENT = self
        self.loop.call_in_loop(fn, *a)
        return self.quiesce()

    @property
    def done(self):
        return self.task is not None and self.task.done()

    # ------------------------------------------------------------------ hooks
    async def _on_hook(self, name, data):
        self.hook_objs.append((name, data))
        self.timeline.append(("hook", name))
        if self.policy is not None:
            self.policy(name, data, self)
        # the snapshot is what an addon leaves behind: taken *after* the policy's edits
        self.hooks.append((name, self.snap(name, data)))
        if self.suspend is not None and self.suspend(name, data, self):
            fut = self.loop.create_future()
            rec = [name, data, fut]
            self.suspended.append(rec)
            try:
                await fut
            finally:
                if rec in self.suspended:
                    self.suspended.remove(rec)

    def complete_hook(self, i=0):
        name, data, fut = self.suspended[i]
        self.do(lambda: (not fut.done()) and fut.set_result(None))

    # ------------------------------------------------------------------ connects
    async def _open(self, transport, host, port):
        e = End(self.loop, (host if _is_ip(host) else "203.0.113.%d" % (1 + len(self.servers)), port), ("192.0.2.1", 40000 + len(self.servers)), transport)
        e.address = (host, port)
        e.connect_fut = self.loop.create_future()
        self.servers.append(e)
        self.timeline.append(("connect", (host, port)))
        if self.auto_connect is not None:
            # a real connect never completes synchronously: yield to the loop at least once
            # (matters under the eager task factory, where open_connection() starts inside server_event)
            await asyncio.sleep(0)
        if self.auto_connect is True:
            e.state = "open"
            return e.r, e.w
        if self.auto_connect is False:
            e.state = "refused"
            raise OSError("connection refused")
        try:
            await e.connect_fut
        except asyncio.CancelledError:
            e.state = "cancelled"
            raise
        return e.r, e.w

    def pending_connects(self):
        return [e for e in self.servers if e.state == "pending" and e.connect_fut is not None and not e.connect_fut.done()]

    def connect_ok(self, e: End):
        e.state = "open"
        self.do(lambda: e.connect_fut.set_result(None))

    def connect_fail(self, e: End, msg="connection refused"):
        e.state = "refused"
        self.do(lambda: e.connect_fut.set_exception(OSError(msg)))

    # ------------------------------------------------------------------ client / server io
    def client_send(self, data: bytes):
        self.do(self.client.send, data)

    def client_eof(self):
        self.do(self.client.eof)

    def client_error(self):
        self.do(self.client.error)

    def server_send(self, e: End, data: bytes):
        self.do(e.send, data)

    def server_eof(self, e: End):
        self.do(e.eof)

    def server_error(self, e: End):
        self.do(e.error)

    def advance(self, dt=None, eps=0.0):
        if dt is None:
            ok = self.loop.advance_to_next_timer(eps)
        else:
            self.loop.advance(dt)
            ok = True
        self.quiesce()
        return ok

    # ------------------------------------------------------------------ close-out
    def close_out(self, max_rounds=50):
        """deterministically bring the connection to its end: refuse pending connects,
        complete suspended hooks, EOF every reader, let timers fire."""
        for _ in range(max_rounds):
            if self.done and not self.loop.pending_tasks():
                break
            progressed = False
            for e in self.pending_connects():
                self.connect_fail(e)
                progressed = True
            while self.suspended:
                self.complete_hook(0)
                progressed = True
            for e in self.servers:
                if e.state == "open" and not e.r.eof:
                    e.r.eof = True
                    self.server_eof(e)
                    progressed = True
            if not self.client.r.eof:
                self.client.r.eof = True
                self.client_eof()
                progressed = True
            if self.done and not self.loop.pending_tasks():
                break
            if not progressed:
                if not self.advance():
                    break
        gc.collect(1)
        return self.done and not self.loop.pending_tasks()

    def dispose(self):
        global _CURRENT
        for lg in self._loggers:
            lg.removeHandler(self._catch)
        try:
            self.loop.shutdown()
        finally:
            asyncio_utils._KEEP_ALIVE.clear()
            if _CURRENT is self:
                _CURRENT = None
            # close_out()'s gc.collect(1) promotes the still-referenced world graph to the oldest generation;
            # without an occasional full collection workers slow down and grow steadily
            global _DISPOSED
            _DISPOSED += 1
            if _DISPOSED % 200 == 0:
                gc.collect()


def _is_ip(h):
    import ipaddress

    try:
        ipaddress.ip_address(h)
        return True
    except ValueError:
        return False
