"""C32 - message text round trip for every content type and charset.

Engine E: every string that is a sequence of <= n tokens (one token per branch of
`infer_content_encoding` / `set_text` / `get_text`: ASCII, latin-1 range, BMP, astral, a
surrogate-escaped byte, U+FEFF, the latin-1 spellings of the UTF-8/16/32 byte order marks,
the three in-body charset declarations) crossed with every content type family and every
charset parameter form, assigned as `message.text` and read back on the real `Message`.
"""
from __future__ import annotations

import codecs
import gzip
import itertools

from mitmproxy import http
from mitmproxy.net import encoding as enc_mod

from vmc import par
from vmc.tally import Tally

META = {
    "level": "exploration",
    "technique": "bounded-exhaustive enumeration of (token string x content type x charset parameter x content-encoding "
                 "x message kind) on the real Message.set_text/get_text",
    "claim": "inside the stated grammar every assigned text reads back identically and the declared charset decodes the "
             "body to the text; exploration level because the property quantifies over inputs only",
    "rule": "a case is (string, content-type family, charset parameter, content-encoding, message kind); non-trivial = the "
            "string is not plain ASCII, or the charset is not ASCII compatible (utf-16/utf-32); distinct by that tuple "
            "(strings that two token sequences spell identically are enumerated once)",
    "assumptions": [
        "strings are sequences of <= n tokens of the stated alphabet; a defect needing a character class or declaration "
        "form outside the alphabet is not covered",
        "charset_updated_when_needed is judged only when a charset label is declared after the assignment; the label is "
        "resolved with Python's codec registry, gb2312/gbk read as gb18030 (WHATWG treats them as one decoder), quoted "
        "labels unquoted; lone surrogates in the text stand for undecodable bytes (PEP 383) and are compared through the "
        "surrogateescape handler",
        "zlib is trusted for the gzip content-encoding dimension (C31 checks codings)",
    ],
}

META_DECL = "<meta charset=latin-1>"
XML_DECL = '<?xml version="1.0" encoding="latin-1"?>'
CSS_DECL = '@charset "latin-1";'

# (token, name) - canonical simplest-first order
TOKENS = [
    ("a", "ascii"),
    ("é", "latin1"),                # é: representable in latin-1, not ascii
    ("€", "bmp"),                   # €: not in latin-1, not in GB2312, in GB18030
    ("中", "cjk"),                   # 中: in GB2312
    ("\U0001F600", "astral"),
    ("\udcff", "surrogate"),             # surrogate-escaped byte 0xFF
    ("﻿", "U+FEFF"),
    ("ÿþ", "latin1(FF FE)"),   # UTF-16LE BOM when written as latin-1
    ("þÿ", "latin1(FE FF)"),   # UTF-16BE BOM
    ("ï»¿", "latin1(EF BB BF)"),  # UTF-8 BOM
    ("\x00\x00", "NUL NUL"),             # completes the two UTF-32 BOM spellings with the tokens above
    (META_DECL, "html-meta"),
    (XML_DECL, "xml-decl"),
    (CSS_DECL, "css-charset"),
]

# Legacy charsets of the alphabet and the superset / alias codec that may be substituted for them (mitmproxy reads
# gb2312 and gbk as GB18030, WHATWG reads gb2312 as GBK). Where writer and reader pick different members of such a
# pair, only the code points on which the two codecs disagree can tell: they are computed here by comparing the
# codecs over the BMP and added to the token alphabet.
LEGACY_PAIRS = [("gb2312", "gb18030"), ("gbk", "gb18030"), ("gb2312", "gbk")]
PER_PAIR = 3


def codec_disagreements(narrow, wide):
    """characters the narrow codec can encode whose bytes the wide codec reads as something else (or not at all)"""
    out = []
    for cp in range(0x80, 0x10000):
        if 0xD800 <= cp <= 0xDFFF:
            continue
        ch = chr(cp)
        try:
            b = ch.encode(narrow)
        except UnicodeEncodeError:
            continue
        try:
            back = b.decode(wide)
        except UnicodeDecodeError:
            back = None
        if back != ch:
            out.append(ch)
    return out


DISAGREE = {"%s/%s" % p: codec_disagreements(*p) for p in LEGACY_PAIRS}
for _pair, _chars in sorted(DISAGREE.items()):
    for _ch in _chars[:PER_PAIR]:
        if _ch not in [t for t, _ in TOKENS]:
            TOKENS.append((_ch, "U+%04X (%s differ)" % (ord(_ch), _pair)))

# content type (None = no header) -> family used for features
CTYPES = [
    (None, "none"),
    ("text/plain", "plain"),
    ("text/html", "html"),
    ("application/xhtml+xml", "html"),
    ("application/xml", "xml"),
    ("text/css", "css"),
    ("application/json", "json"),
    ("application/javascript", "javascript"),
    ("image/png", "other"),
    ("garbage", "unparseable"),
]
# parameter part of the Content-Type value (None = no parameter): every charset value class with the usual
# lower-case parameter name, then the other spellings a charset parameter can have on the wire - parameter names
# are case-insensitive (RFC 9110 s5.6.6), values may be quoted, a parameter may be repeated
PARAMS = [
    None, "charset=utf-8", "charset=latin-1", "charset=ascii", "charset=utf-16", "charset=utf-32", "charset=gb2312",
    "charset=gbk", "charset=bogus", "charset=", 'charset="utf-8"',
    "Charset=utf-8", "Charset=latin-1", "CHARSET=ascii", 'Charset="latin-1"',
    "charset=latin-1; charset=utf-8", "charset=utf-8; charset=latin-1",
]


def charset_params(params):
    """independent reading of the charset parameters in a parameter list: [(name as spelled, unquoted value)]"""
    out = []
    for part in (params or "").split(";"):
        if "=" not in part:
            continue
        k, v = part.split("=", 1)
        if k.strip().lower() == "charset":
            v = v.strip()
            if len(v) >= 2 and v[0] == v[-1] == '"':
                v = v[1:-1]
            out.append((k.strip(), v))
    return out

BOM_LOOKALIKES = ("ÿþ", "þÿ", "ï»¿", "\x00\x00þÿ")


def strings(maxtok):
    seen = set()
    out = []
    for n in range(0, maxtok + 1):
        for tup in itertools.product([t for t, _ in TOKENS], repeat=n):
            s = "".join(tup)
            if s not in seen:
                seen.add(s)
                out.append(s)
    return out


def gen_cases(maxtok, variants):
    ntok = {}
    for n in range(maxtok, -1, -1):  # fewest tokens that spell the string
        for tup in itertools.product([t for t, _ in TOKENS], repeat=n):
            ntok["".join(tup)] = n
    for s in strings(maxtok):
        for ct, _ in CTYPES:
            for cs in PARAMS:
                if ct is None and cs is not None:
                    continue
                for kind, ce, vmax in variants:
                    if ntok[s] <= vmax:
                        yield [s, ct, cs, ce, kind]


def _tune_malloc():
    """harness-side speed-up only (gzip variant): keep zlib's ~270 kB per-call state on the heap instead of
    mmap/munmap-ing it on every call (page faults are very expensive in forked workers on this machine)"""
    try:
        import ctypes

        libc = ctypes.CDLL("libc.so.6")
        libc.mallopt(-3, 1 << 30)  # M_MMAP_THRESHOLD
        libc.mallopt(-1, 1 << 30)  # M_TRIM_THRESHOLD
    except Exception:
        pass


def body_bom(body):
    """which byte order mark the produced (content-decoded) body starts with"""
    if not isinstance(body, bytes):
        return "none"
    if body.startswith((b"\x00\x00\xfe\xff", b"\xff\xfe\x00\x00")):
        return "utf-32"
    if body.startswith((b"\xfe\xff", b"\xff\xfe")):
        return "utf-16"
    if body.startswith(b"\xef\xbb\xbf"):
        return "utf-8"
    return "none"


def features(s, ct, cs, ce, body):
    """trigger classes of a case; `decl`, `surrogate`, `charset`, `ct`, `ce` name the grammar alternatives chosen,
    `body_bom` is read off the body the assignment produced"""
    fam = dict(CTYPES)[ct]
    cps = charset_params(cs)
    if not cps:
        spelling, label = "none", "none"
    else:
        spelling = "duplicate" if len(cps) > 1 else ("lower" if cps[0][0] == "charset" else "mixed-case")
        label = "+".join(v or "empty" for _, v in cps)
        if cs.count('"'):
            label = '"%s"' % label
    # an in-body declaration can only matter when no parameter spelled exactly `charset` carries a value
    no_header_charset = not any(k == "charset" and v for k, v in cps)
    decl = "none"
    if no_header_charset:
        if fam == "html" and META_DECL in s:
            decl = "html-meta"
        elif fam == "xml" and XML_DECL in s:
            decl = "xml-decl"
        elif fam == "css" and s.startswith(CSS_DECL):
            decl = "css-charset"
    if s.startswith("﻿"):
        lead = "U+FEFF"
    elif s.startswith(BOM_LOOKALIKES):
        lead = "bom-lookalike"  # latin-1 characters whose latin-1 bytes spell a byte order mark
    else:
        lead = "none"
    return {
        "ct": fam,
        "charset": label,
        "charset_param": spelling,
        "decl": decl,
        "text_lead": lead,
        "body_bom": body_bom(body),
        "surrogate": any(0xD800 <= ord(c) <= 0xDFFF for c in s),
        "ce": ce or "none",
    }


def declared_charsets(header):
    """independent reading of the charset parameter(s) of a Content-Type value (parameter names are
    case-insensitive, the value may be a quoted-string): the distinct non-empty labels, in order"""
    if header is None:
        return []
    media = header.split(";")[0].strip()
    if media.count("/") != 1 or not all(media.split("/")):
        return []  # not a media type: its parameters declare nothing
    out = []
    for _, v in charset_params(header.split(";", 1)[1] if ";" in header else ""):
        if v and v.lower() not in [x.lower() for x in out]:
            out.append(v)
    return out


def make_message(kind, ct, cs, ce):
    hdrs = []
    if ct is not None:
        val = ct if cs is None else "%s; %s" % (ct, cs)
        hdrs.append((b"content-type", val.encode()))
    if ce:
        hdrs.append((b"content-encoding", ce.encode()))
    # one real object per kind is re-used (construction runs ~60 us of type checks): everything set_text/get_text
    # can read - body, headers, trailers - is overwritten here, so no state survives from the previous case
    m = _TEMPLATES.get(kind)
    if m is None:
        if kind == "response":
            m = http.Response(b"HTTP/1.1", 200, b"OK", http.Headers(), b"", None, 0.0, 0.0)
        else:
            m = http.Request("h", 80, b"POST", b"http", b"h", b"/", b"HTTP/1.1", http.Headers(), b"", None, 0.0, 0.0)
        _TEMPLATES[kind] = m
    m.data.headers = http.Headers(hdrs)
    m.data.content = b""
    m.data.trailers = None
    return m


_TEMPLATES: dict = {}


def show(x):
    if isinstance(x, str):
        return x.encode("unicode_escape").decode("ascii")
    return x


def one(case, t: Tally, sample=False, verbose=False):
    s, ct, cs, ce, kind = case
    enc_mod._cache = enc_mod.CachedDecode(None, None, None, None)
    m = make_message(kind, ct, cs, ce)
    feats = None
    # --- clause text_roundtrip: m.text = s; m.text == s, no exception
    err = got = None
    assigned = True
    try:
        m.text = s
    except KeyboardInterrupt:
        raise
    except BaseException as e:
        err = "set_text raised %s: %s" % (type(e).__name__, e)
        assigned = False
    if err is None:
        try:
            got = m.text
        except KeyboardInterrupt:
            raise
        except BaseException as e:
            err = "get_text raised %s: %s" % (type(e).__name__, str(e)[:120])
    hdr_after = m.headers.get("content-type")
    # the body as a recipient sees it (content coding removed with the stdlib decoder, not with mitmproxy's)
    body = m.raw_content
    if ce == "gzip" and assigned:
        try:
            body = gzip.decompress(body)
        except Exception as e:
            body = None
    if verbose:
        print("  text=%s content-type=%r charset=%r ce=%r kind=%s" % (show(s), ct, cs, ce, kind))
        print("  after assignment: content-type=%r raw_content=%r" % (hdr_after, m.raw_content))
        print("  read back: %s" % (show(got) if err is None else err))
    if err is None and got == s and type(got) is str:
        t.ok("text_roundtrip")
    else:
        feats = features(s, ct, cs, ce, body)
        t.bad("text_roundtrip", feats, case, show(s),
              {"read_back": show(got) if err is None else err, "content_type_after": hdr_after, "raw": m.raw_content})
    # --- clause charset_updated_when_needed: the charset declared after the assignment decodes the body to s
    # every charset label the header declares afterwards must do so (a stale second declaration misleads whichever
    # recipient picks it); a header that already arrived with conflicting declarations is ambiguous input: not judged
    labels = declared_charsets(hdr_after)
    conflicting_input = ct is not None and len(declared_charsets("%s; %s" % (ct, cs))) > 1
    if not assigned:
        pass  # nothing was assigned: already reported by text_roundtrip
    elif not labels:
        t.add("charset_clause_skipped_no_label_declared")
    elif conflicting_input:
        t.add("charset_clause_skipped_conflicting_declarations_in_input")
    else:
        for label in labels:
            name = "gb18030" if label.lower() in ("gb2312", "gbk") else label
            try:
                codecs.lookup(name)
            except LookupError:
                t.add("charset_clause_skipped_unknown_label_left_declared")
                continue
            try:
                dec = body.decode(name, "surrogateescape")
            except KeyboardInterrupt:
                raise
            except BaseException as e:
                dec = "%s: %s" % (type(e).__name__, str(e)[:120])
            if dec == s:
                t.ok("charset_updated_when_needed")
            else:
                feats = feats or features(s, ct, cs, ce, body)
                t.bad("charset_updated_when_needed", feats, case, show(s),
                      {"declared": labels, "failing": label, "content_type_after": hdr_after, "body": m.raw_content,
                       "body_decoded_with_declared": show(dec)})
            if verbose:
                print("  body decoded with declared charset %r: %s" % (label, show(dec)))
    t.outcome([hdr_after, err is None and got == s])
    nontrivial = (not s.isascii()) or any(v in ("utf-16", "utf-32") for _, v in charset_params(cs))
    t.case({"text": show(s), "content_type": ct, "charset": cs, "ce": ce, "kind": kind} if sample else None,
           nontrivial=nontrivial, key="\x1f".join([show(s), str(ct), str(cs), str(ce), kind]))


def chunk_fn(chunk):
    t = Tally()
    for i, case in enumerate(chunk):
        one(case, t, sample=(i == len(chunk) // 2))
    return t


def run(ctx):
    _tune_malloc()
    maxtok = ctx.pick(2, 3)
    # (message kind, content-encoding header present while the text is assigned and read, max tokens for this variant)
    variants = ctx.pick([["response", None, 2], ["response", "gzip", 1]],
                        [["response", None, 3], ["response", "gzip", 3], ["request", None, 2]])
    ctx.bounds = {
        "max_tokens": maxtok,
        "tokens": [n for _, n in TOKENS],
        "content_types": [c for c, _ in CTYPES],
        "content_type_parameters": PARAMS,
        "legacy_codec_disagreements": {k: ["U+%04X" % ord(c) for c in v[:8]] + (["... %d in all" % len(v)] if len(v) > 8 else [])
                                       for k, v in sorted(DISAGREE.items())},
        "message_kind_content_encoding_max_tokens": variants,
    }
    cases = list(gen_cases(maxtok, variants))
    ctx.info["distinct_strings"] = len(strings(maxtok))
    ctx.log("%d cases (%d strings)" % (len(cases), ctx.info["distinct_strings"]))
    # quick is ~5 s of CPU: run it in-process (forking the pool costs more than that on a loaded machine);
    # thorough is dealt to 8 workers, one chunk each
    if ctx.thorough:
        par.pmap_tally(chunk_fn, cases, ctx.tally, nchunks=8, nproc=8)
    else:
        par.pmap_tally(chunk_fn, cases, ctx.tally, nproc=1)


def replay(case, t: Tally, verbose=False):
    one(list(case), t, verbose=verbose)
