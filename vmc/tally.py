"""Result accumulation shared by every engine.

A Tally is what one worker (or the parent) has measured: per-clause pass counts,
violations (clause + features + replayable case), counters for the evidence file.
Tallies are mergeable and picklable so that work can be dealt to a process pool.
"""
from __future__ import annotations

import hashlib
import json


class HarnessError(Exception):
    """the checker itself misbehaved (nondeterminism, impossible replay): exit 2, never a VIOLATION"""


def jdump(obj) -> str:
    return json.dumps(obj, sort_keys=True, default=_default, ensure_ascii=True)


def _default(o):
    if isinstance(o, (bytes, bytearray)):
        return {"$b": bytes(o).hex()}
    if isinstance(o, (set, frozenset)):
        return sorted(o, key=repr)
    if isinstance(o, tuple):
        return list(o)
    return repr(o)


def unj(o):
    """inverse of the bytes encoding used by jdump (for replay files)."""
    if isinstance(o, dict):
        if set(o) == {"$b"}:
            return bytes.fromhex(o["$b"])
        return {k: unj(v) for k, v in o.items()}
    if isinstance(o, list):
        return [unj(v) for v in o]
    return o


def digest(obj) -> str:
    if not isinstance(obj, (bytes, str)):
        obj = jdump(obj)
    if isinstance(obj, str):
        obj = obj.encode("utf-8", "surrogateescape")
    return hashlib.sha1(obj).hexdigest()[:16]


class Violation:
    __slots__ = ("clause", "features", "case", "expected", "observed")

    def __init__(self, clause, features, case, expected=None, observed=None):
        self.clause = clause
        self.features = dict(features or {})
        self.case = case
        self.expected = expected
        self.observed = observed

    def key(self):
        return (self.clause, jdump(self.features))

    def to_json(self):
        return {
            "clause": self.clause,
            "features": self.features,
            "case": self.case,
            "expected": self.expected,
            "observed": self.observed,
        }


class Tally:
    MAX_PER_KEY = 3  # violations kept per (clause, features); all are counted

    def __init__(self):
        self.clauses: dict[str, int] = {}  # clause -> number of times it was evaluated and held
        self.violations: dict[tuple, list[Violation]] = {}
        self.vcount: dict[tuple, int] = {}
        self.evaluations = 0
        self.nontrivial: set[str] = set()  # digests of distinct non-trivial cases
        self.states = 0
        self.state_set: set[str] = set()  # digests of distinct observed states (unioned across workers)
        self.transitions = 0
        self.executions = 0
        self.max_depth = 0
        self.outcomes: set[str] = set()
        self.samples: list = []
        self.notes: dict[str, int] = {}
        self.extra: dict[str, int] = {}

    # -- recording -----------------------------------------------------------
    def ok(self, clause, n=1):
        self.clauses[clause] = self.clauses.get(clause, 0) + n

    def bad(self, clause, features, case, expected=None, observed=None):
        v = Violation(clause, features, case, _short(expected), _short(observed))
        k = v.key()
        self.vcount[k] = self.vcount.get(k, 0) + 1
        lst = self.violations.setdefault(k, [])
        if len(lst) < self.MAX_PER_KEY:
            lst.append(v)

    def judge(self, clause, cond, features, case, expected=None, observed=None):
        if cond:
            self.ok(clause)
        else:
            self.bad(clause, features, case, expected, observed)
        return cond

    def case(self, case_obj=None, nontrivial=True, key=None):
        """count one evaluated case; nontrivial cases are de-duplicated by digest"""
        self.evaluations += 1
        if nontrivial:
            self.nontrivial.add(digest(key if key is not None else case_obj))
        if case_obj is not None and len(self.samples) < 3:
            self.samples.append(case_obj)

    def state(self, obj):
        """record one observed state (de-duplicated by digest, also across workers)"""
        self.state_set.add(digest(obj))

    def outcome(self, obj):
        self.outcomes.add(digest(obj))

    def note(self, what, n=1):
        self.notes[what] = self.notes.get(what, 0) + n

    def add(self, name, n=1):
        self.extra[name] = self.extra.get(name, 0) + n

    # -- merging -------------------------------------------------------------
    def merge(self, other: "Tally"):
        for k, v in other.clauses.items():
            self.clauses[k] = self.clauses.get(k, 0) + v
        for k, lst in other.violations.items():
            mine = self.violations.setdefault(k, [])
            for v in lst:
                if len(mine) < self.MAX_PER_KEY:
                    mine.append(v)
        for k, n in other.vcount.items():
            self.vcount[k] = self.vcount.get(k, 0) + n
        self.evaluations += other.evaluations
        self.nontrivial |= other.nontrivial
        self.states += other.states
        self.state_set |= other.state_set
        self.transitions += other.transitions
        self.executions += other.executions
        self.max_depth = max(self.max_depth, other.max_depth)
        self.outcomes |= other.outcomes
        for s in other.samples:
            if len(self.samples) < 4:
                self.samples.append(s)
        for k, n in other.notes.items():
            self.notes[k] = self.notes.get(k, 0) + n
        for k, n in other.extra.items():
            self.extra[k] = self.extra.get(k, 0) + n
        return self


def _display(o):
    """like _default but bytes are shown readably (expected/observed are for humans, not for replay)"""
    if isinstance(o, (bytes, bytearray)):
        return repr(bytes(o))
    return _default(o)


def _short(x, lim=1200):
    if x is None:
        return None
    try:
        s = json.dumps(x, sort_keys=True, default=_display, ensure_ascii=True)
    except Exception:
        s = repr(x)
    if len(s) > lim:
        return s[:lim] + "...(%d chars)" % len(s)
    return json.loads(s)
