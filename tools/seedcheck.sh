#!/bin/bash
# tools/seedcheck.sh <dir with patch.diff test_demo.py meta.json> [tier] [--no-baseline]
# Confirms a seeded change in a scratch worktree of /repo (never in /repo itself):
#   demo fails with the patch / passes without, the repository's suite still passes with the patch,
#   and runs the property's check against the patched tree.  Prints one summary line.
set -u
d="$(readlink -f "$1")"; tier="${2:-quick}"; nobase="${3:-}"
pid=$(basename "$d" | cut -d- -f1)   # (some meta.json files carry the property title after the id)
wt="/dev/shm/vmc-seed-$$"
git -C /repo worktree add -q --detach "$wt" HEAD || exit 3
trap 'git -C /repo worktree remove --force "$wt" >/dev/null 2>&1; git -C /repo worktree prune' EXIT
loc=$(grep -oE "test/[A-Za-z0-9_/.-]*" "$d/test_demo.py" | head -1)
case "$loc" in *.py) loc=$(dirname "$loc");; esac
[ -d "$wt/$loc" ] || loc="test/mitmproxy"
cp "$d/test_demo.py" "$wt/$loc/test_seed_demo.py"
run_demo(){ (cd "$wt" && env -u MITMPROXY_VERIF PYTHONPATH="$wt" /venv/bin/python -m pytest -q -p no:cacheprovider -x -q "$loc/test_seed_demo.py" >/dev/null 2>&1; echo $?); }
without=$(run_demo)
git -C "$wt" apply "$d/patch.diff" || { echo "SEED $pid $(basename $d) patch-does-not-apply"; exit 3; }
with=$(run_demo)
rm -f "$wt/$loc/test_seed_demo.py"
base="skipped"
if [ "$nobase" != "--no-baseline" ]; then
  if "$(dirname "$0")/baseline.sh" "$wt" >/dev/null 2>&1; then base="ok"; else base="FAILS"; fi
fi
cd "$(dirname "$0")/.."
log="/dev/shm/vmc-seed-$$.log"
VERIF_REPO="$wt" ./check "$pid" --tier "$tier" > "$log" 2>&1; rc=$?
nv=$(grep -c "^VIOLATION" "$log")
first=$(grep -A1 "^VIOLATION" "$log" | sed -n 2p | cut -c1-150)
echo "SEED $pid $(basename $d) demo_without=$without demo_with=$with baseline=$base check_exit=$rc violations=$nv :: $first"
rm -f "$log"
