"""C18 - ALPN negotiation with the client is consistent with offers and upstream.

Engine E, three parts:
  callback   the full product  client offer list x upstream ALPN x http2 x client_alpn override,
             `alpn_select_callback` called directly
  handshake  real in-memory handshakes (stdlib-ssl client  <->  the pyOpenSSL connection that the real
             `TlsConfig.tls_start_client` builds) for contexts whose `layers` are set up by hand
  stack      the real layer stack of an explicit HTTP proxy spoken to over TLS (secure web proxy:
             modes.HttpProxy / HttpUpstreamProxy + the real NextLayer addon + the real TlsConfig addon),
             handshake completed through ClientTLSLayer
  server-first  the upstream protocol is known from a *real* upstream handshake: reverse proxy to a TLS upstream
             (eager connection strategy), the real ServerTLSLayer handshakes with an independent stdlib-ssl server
             (with / without ALPN support) before the client's TLS context is built; the known upstream protocol is
             what that server reports, and the client must end up with it or with none
"""
from __future__ import annotations

import atexit
import itertools
import os
import shutil
import ssl

from cryptography import x509
from cryptography.hazmat.primitives import serialization
from OpenSSL import SSL

from mitmproxy import connection
from mitmproxy import tls as mtls
from mitmproxy.addons import next_layer as next_layer_addon
from mitmproxy.addons import proxyserver as proxyserver_addon
from mitmproxy.addons import tlsconfig
from mitmproxy.net import tls as net_tls
from mitmproxy.proxy import commands as mcommands
from mitmproxy.proxy import context as mcontext
from mitmproxy.proxy import events as mevents
from mitmproxy.proxy import layer as mlayer
from mitmproxy.proxy.layers import modes
from mitmproxy.proxy.layers import tls as ptls
from mitmproxy.proxy.mode_specs import ProxyMode
from mitmproxy.test import taddons

from vmc import par
from vmc.tally import HarnessError, Tally

META = {
    "level": "exploration",
    "technique": "full product enumeration of (client offers, upstream ALPN, http2, client_alpn override) on the real alpn_select_callback, plus real in-memory "
                 "TLS handshakes through the real tls_start_client and through the real secure-web-proxy layer stack",
    "claim": "for every combination within the stated alphabet the selected protocol satisfies the four sentences of the property; exploration because the subject is a pure "
             "function of a small configuration tuple, and the handshakes tie that function to what a real client ends up with",
    "rule": "a case is (ordered offer list without repetition over {h2,h3,http/1.1,http/1.0,http/0.9,foo}, upstream ALPN, http2, override) for the callback, or "
            "(layer configuration, upstream ALPN, http2, offer list) for a handshake; non-trivial = the client offers at least one protocol (the callback is reached)",
    "assumptions": [
        "'upstream protocol known' = server.alpn is not None; b'' means the upstream handshake finished without ALPN and the client must then get none",
        "the sentence about a known upstream protocol is not applied when an explicit client_alpn override is in force (secure web proxy outer connection / addon-set client.alpn): "
        "there the override sentence applies instead",
        "'secure web proxy outer connection' = the ClientTLSLayer that NextLayer puts directly under modes.HttpProxy / modes.HttpUpstreamProxy",
        "OpenSSL is trusted to deliver the callback's choice; the stdlib ssl client is the independent peer",
        "the CA is generated once per process under /dev/shm/vmc-<pid>/",
    ],
}

H2, H3, H11, H10, H09, FOO = b"h2", b"h3", b"http/1.1", b"http/1.0", b"http/0.9", b"foo"
PROTOS = [H2, H3, H11, H10, H09, FOO]
UPSTREAMS = [None, b""] + PROTOS
OVERRIDES = [None, H11]


def pcls(p):
    if p is None:
        return "none"
    if p == H2:
        return "h2"
    if p == H3:
        return "h3"
    if p == H11:
        return "http/1.1"
    if p in (H10, H09):
        return "http/1.0-0.9"
    return "other"


def ucls(u):
    if u is None:
        return "unknown"
    if u == b"":
        return "none-negotiated"
    return pcls(u)


def offer_lists(maxlen):
    yield []
    for n in range(1, maxlen + 1):
        for p in itertools.permutations(PROTOS, n):
            yield list(p)


# ---------------------------------------------------------------------------
# the oracle: the four sentences of the property

def judge_selection(t: Tally, via, offers, upstream, http2, override, sel, case, extra=None):
    """sel: None (no protocol) or bytes"""
    f = {"via": via, "upstream": ucls(upstream), "upstream_offered": bool(upstream) and upstream in offers, "http2": bool(http2),
         "override": override is not None, "selected": pcls(sel)}
    if extra:
        f.update(extra)
    t.judge("selected_in_offers_or_none", sel is None or sel in offers, f, case, "one of %r or none" % offers, sel)
    if override is None and upstream is not None:
        want = [None] if upstream == b"" else [upstream, None]
        t.judge("known_upstream_then_that_or_none", sel in want, f, case, want, sel)
    if not http2:
        t.judge("no_h2_when_disabled", sel != H2, f, case, "not h2", sel)
    if override == H11:
        t.judge("outer_proxy_only_http11", sel in (H11, None), f, case, [H11, None], sel)
    return f


# ---------------------------------------------------------------------------
# part 1: the callback

_CONN = None


def callback(offers, upstream, http2, override):
    """-> ("sel", bytes|None) or ("crash", text)"""
    global _CONN
    if _CONN is None:
        _CONN = SSL.Connection(SSL.Context(SSL.TLS_METHOD))
    _CONN.set_app_data(tlsconfig.AppData(client_alpn=override, server_alpn=upstream, http2=http2))
    try:
        r = tlsconfig.alpn_select_callback(_CONN, list(offers))
    except KeyboardInterrupt:
        raise
    except BaseException as e:
        return ("crash", type(e).__name__)
    if r is SSL.NO_OVERLAPPING_PROTOCOLS:
        return ("sel", None)
    if isinstance(r, bytes):
        return ("sel", r)
    return ("crash", "returned %r" % (r,))


def cb_case(case, t: Tally, verbose=False):
    offers, upstream, http2, override = case["offers"], case["upstream"], case["http2"], case["override"]
    if not offers:
        # OpenSSL does not call the select callback when the client sends no ALPN extension: no protocol
        r = ("sel", None)
    else:
        r = callback(offers, upstream, http2, override)
    if verbose:
        print("  callback(offers=%r, upstream=%r, http2=%r, client_alpn=%r) -> %r" % (offers, upstream, http2, override, r))
    if r[0] == "crash":
        t.bad("callback_total", {"via": "callback", "upstream": ucls(upstream), "http2": http2, "override": override is not None}, case, "bytes or NO_OVERLAPPING_PROTOCOLS", r[1])
        return
    t.ok("callback_total")
    judge_selection(t, "callback", offers, upstream, http2, override, r[1], case)
    t.outcome([ucls(upstream), http2, override is not None, pcls(r[1]), r[1] in offers if r[1] else None])


def cb_chunk(cases):
    t = Tally()
    for i, c in enumerate(cases):
        cb_case(c, t)
        t.case(c if len(c["offers"]) == 2 else None, nontrivial=bool(c["offers"]), key=c)
    return t


# ---------------------------------------------------------------------------
# parts 2 and 3: real handshakes

_ENV = {}


def env():
    """one TlsConfig addon + options + CA per process"""
    if _ENV:
        return _ENV
    d = "/dev/shm/vmc-%d" % os.getpid()
    os.makedirs(d, exist_ok=True)
    pid = os.getpid()

    def _rm():
        if os.getpid() == pid:
            shutil.rmtree(d, ignore_errors=True)

    atexit.register(_rm)
    tc = tlsconfig.TlsConfig()
    nl = next_layer_addon.NextLayer()
    # Proxyserver is only loaded for its option definitions (the HTTP layers read them once a protocol is
    # negotiated); it is never told that it is running, so it opens no socket
    tctx = taddons.context(nl, tc, proxyserver_addon.Proxyserver())
    tctx.configure(tc, confdir=os.path.join(d, "c18-conf"))
    # certificate + key for the in-memory upstream server of the server-first cases. Upstream certificate
    # verification is C15's subject, not this property's: it is switched off.
    tctx.options.ssl_insecure = True
    entry = tc.certstore.get_cert("up.example", [x509.DNSName("up.example")])
    pem = os.path.join(d, "c18-upstream.pem")
    with open(pem, "wb") as fh:
        fh.write(entry.privatekey.private_bytes(serialization.Encoding.PEM, serialization.PrivateFormat.TraditionalOpenSSL, serialization.NoEncryption()))
        fh.write(entry.cert.to_pem())
    _ENV.update(tc=tc, nl=nl, tctx=tctx, dir=d, upstream_pem=pem)
    return _ENV


def upstream_peer(alpn):
    """an independent TLS server (stdlib ssl, memory BIOs); alpn: None = the server does not do ALPN at all"""
    c = ssl.SSLContext(ssl.PROTOCOL_TLS_SERVER)
    c.load_cert_chain(env()["upstream_pem"])
    if alpn:
        c.set_alpn_protocols([a.decode() for a in alpn])
    inc, out = ssl.MemoryBIO(), ssl.MemoryBIO()
    return c.wrap_bio(inc, out, server_side=True), inc, out


def std_client(offers, sni="proxy.example"):
    c = ssl.SSLContext(ssl.PROTOCOL_TLS_CLIENT)
    c.check_hostname = False
    c.verify_mode = ssl.CERT_NONE
    if offers:
        c.set_alpn_protocols([o.decode() for o in offers])
    inc, out = ssl.MemoryBIO(), ssl.MemoryBIO()
    return c.wrap_bio(inc, out, server_hostname=sni), inc, out


def client_step(cl, out):
    """-> (done, bytes to send)"""
    done = False
    try:
        cl.do_handshake()
        done = True
    except ssl.SSLWantReadError:
        pass
    return done, out.read()


def handshake_with_conn(conn: SSL.Connection, offers):
    """pump a stdlib-ssl client against a pyOpenSSL server connection (memory BIOs). -> (client_alpn, server_alpn)"""
    cl, inc, out = std_client(offers)
    cdone = sdone = False
    for _ in range(20):
        if not cdone:
            cdone, data = client_step(cl, out)
            if data:
                conn.bio_write(data)
        if not sdone:
            try:
                conn.do_handshake()
                sdone = True
            except SSL.WantReadError:
                pass
        try:
            while True:
                inc.write(conn.bio_read(65535))
        except SSL.WantReadError:
            pass
        if cdone and sdone:
            break
    if not (cdone and sdone):
        raise HarnessError("in-memory handshake did not complete")
    sel = cl.selected_alpn_protocol()
    return (sel.encode() if sel is not None else None), (conn.get_alpn_proto_negotiated() or None)


# contexts set up by hand (only layers[0] and the shape of the list matter to tls_start_client); the secure web
# proxy's outer connection is not mocked: it is built by the real NextLayer addon in stack_case()
LAYER_CONFIGS = ["inner-after-connect", "reverse"]
HS_OFFERS = [[], [H2, H11], [H11, H2], [H11], [H2], [FOO], [FOO, H10, H11]]
HS_UPSTREAMS = [None, b"", H2, H11]


def hs_case(case, t: Tally, verbose=False):
    cfg, upstream, http2, offers = case["cfg"], case["upstream"], case["http2"], case["offers"]
    e = env()
    e["tctx"].options.http2 = http2
    client = connection.Client(peername=("192.0.2.1", 1234), sockname=("192.0.2.2", 8080), timestamp_start=0, state=connection.ConnectionState.OPEN)
    client.sni = "proxy.example"
    ctx = mcontext.Context(client, e["tctx"].options)
    if cfg == "inner-after-connect":  # HttpProxy / HttpLayer / HttpStream / ServerTLSLayer / ClientTLSLayer
        ctx.layers = [modes.HttpProxy(ctx), 1, 2, 3, 4]
    else:
        ctx.layers = [modes.ReverseProxy(ctx), 1]
    ctx.server.alpn = upstream
    data = mtls.TlsData(client, ctx)
    f0 = {"via": cfg, "upstream": ucls(upstream), "http2": http2}
    try:
        e["tc"].tls_start_client(data)
        app = dict(data.ssl_conn.get_app_data())
    except KeyboardInterrupt:
        raise
    except BaseException as ex:
        t.bad("tls_start_client_total", f0, case, "an SSL.Connection with AppData", repr(ex))
        return
    t.ok("tls_start_client_total")
    override = app["client_alpn"]
    t.judge("appdata_reflects_configuration", app["server_alpn"] == upstream and app["http2"] == http2 and override is None, f0, case, [None, upstream, http2], app)
    try:
        csel, ssel = handshake_with_conn(data.ssl_conn, offers)
    except (ssl.SSLError, SSL.Error) as ex:
        # nothing but the ALPN choice can make these handshakes fail (the client verifies no certificate):
        # e.g. the independent client aborts with BAD_EXTENSION when it is handed a protocol it did not offer
        t.bad("handshake_completes", {**f0, "override": override is not None, "upstream_offered": bool(upstream) and upstream in offers}, case,
              "completed handshake", repr(ex))
        return
    t.ok("handshake_completes")
    if verbose:
        print("  %s upstream=%r http2=%r offers=%r -> app_data=%r negotiated client=%r server=%r" % (cfg, upstream, http2, offers, app, csel, ssel))
    f = judge_selection(t, cfg, offers, upstream, http2, None, csel, case)
    want = ("sel", None) if not offers else callback(offers, app["server_alpn"], app["http2"], app["client_alpn"])
    t.judge("handshake_result_equals_callback", want == ("sel", csel) and csel == ssel, f, case, want, [csel, ssel])
    t.outcome([cfg, ucls(upstream), http2, pcls(csel)])


STACK_MODES = ["regular", "upstream:https://up.example:8080"]
# the full offer alphabet (every ordered list of <= 2 protocols), crossed with http2 on/off
STACK_OFFERS = list(offer_lists(2))
# who answers the next_layer hook below the mode layer: the shipped NextLayer addon, which stacks ClientTLSLayer and
# HttpLayer in one go, or an addon that only puts the ClientTLSLayer there and leaves the rest to later next_layer
# hooks ("lazy", how a user addon - and mitmproxy before LayerStack - builds the same secure web proxy)
STACK_BUILDS = ["addon", "lazy"]


def stack_case(case, t: Tally, verbose=False):
    """secure web proxy: the client talks TLS to an explicit HTTP proxy; everything above the socket is real"""
    mode, http2, offers = case["mode"], case["http2"], case["offers"]
    build = case.get("build", "addon")
    e = env()
    e["tctx"].options.http2 = http2
    client = connection.Client(peername=("192.0.2.1", 1234), sockname=("192.0.2.2", 8080), timestamp_start=0,
                               state=connection.ConnectionState.OPEN, proxy_mode=ProxyMode.parse(mode))
    ctx = mcontext.Context(client, e["tctx"].options)
    top = (modes.HttpProxy if mode == "regular" else modes.HttpUpstreamProxy)(ctx)
    cl, inc, out = std_client(offers)
    seen = {"override": "no tls_start_client hook", "established": False, "failed": None, "layers": None}

    def feed(ev):
        pending = [ev]
        while pending:
            x = pending.pop(0)
            for c in top.handle_event(x):
                if isinstance(c, mlayer.NextLayerHook):
                    if build == "lazy" and c.data.context.layers == [top] and net_tls.starts_like_tls_record(c.data.data_client()):
                        c.data.layer = ptls.ClientTLSLayer(c.data.context)
                    else:
                        e["nl"].next_layer(c.data)
                    pending.append(mevents.HookCompleted(c, None))
                elif isinstance(c, ptls.TlsClienthelloHook):
                    e["tc"].tls_clienthello(c.data)
                    pending.append(mevents.HookCompleted(c, None))
                elif isinstance(c, ptls.TlsStartClientHook):
                    seen["layers"] = [type(x).__name__ for x in c.data.context.layers]
                    e["tc"].tls_start_client(c.data)
                    seen["override"] = c.data.ssl_conn.get_app_data()["client_alpn"]
                    pending.append(mevents.HookCompleted(c, None))
                elif isinstance(c, ptls.TlsEstablishedClientHook):
                    seen["established"] = True
                    pending.append(mevents.HookCompleted(c, None))
                elif isinstance(c, ptls.TlsFailedClientHook):
                    seen["failed"] = c.data.conn.error
                    pending.append(mevents.HookCompleted(c, None))
                elif isinstance(c, mcommands.StartHook):
                    pending.append(mevents.HookCompleted(c, None))
                elif isinstance(c, mcommands.SendData) and c.connection is client:
                    inc.write(c.data)

    f0 = {"via": "stack" if build == "addon" else "stack-lazy", "mode": mode.split(":")[0], "http2": http2}
    cdone = False
    try:
        feed(mevents.Start())
        for _ in range(20):
            cdone, data = client_step(cl, out)
            if data:
                feed(mevents.DataReceived(client, data))
            if cdone and seen["established"]:
                break
    except KeyboardInterrupt:
        raise
    except BaseException as ex:
        if cdone and seen["established"]:
            # the handshake (and with it the ALPN selection, which is all this property is about) is over; what
            # the HTTP layer does with the negotiated protocol afterwards (e.g. h3 negotiated over TCP) is not judged here
            t.note("layer stack raised after the client handshake had completed: %s" % type(ex).__name__)
        else:
            t.bad("stack_handshake_completes", f0, case, "completed handshake", repr(ex))
            return
    if not t.judge("stack_handshake_completes", cdone and seen["established"] and not seen["failed"], f0, case, "completed handshake", dict(seen)):
        return
    sel = cl.selected_alpn_protocol()
    sel = sel.encode() if sel is not None else None
    if verbose:
        print("  %s http2=%r offers=%r: layers at tls_start_client=%r client_alpn override=%r -> negotiated %r (conn.alpn=%r)" % (
            mode, http2, offers, seen["layers"], seen["override"], sel, client.alpn))
    f = {**f0, "override_applied": seen["override"] == H11, "selected": pcls(sel)}
    t.judge("outer_proxy_only_http11", sel in (H11, None), f, case, [H11, None], sel)
    t.judge("selected_in_offers_or_none", sel is None or sel in offers, f, case, offers, sel)
    if not http2:
        t.judge("no_h2_when_disabled", sel != H2, f, case, "not h2", sel)
    t.judge("connection_records_negotiated_alpn", (client.alpn or None) == sel, f, case, sel, client.alpn)
    t.outcome([f0["via"], f0["mode"], http2, pcls(sel), f["override_applied"]])


SF_MODES = ["reverse:https://up.example:443", "reverse:tls://up.example:443"]
# what the upstream server supports: no ALPN at all, h2+http/1.1, http/1.1 only, something the client may not offer
SF_UPSTREAM_ALPN = [None, [H2, H11], [H11], [FOO]]
SF_OFFERS = [[], [H2, H11], [H11, H2], [H11], [H2], [FOO, H11]]


def serverfirst_case(case, t: Tally, verbose=False):
    """the upstream protocol is *known*: a reverse proxy to a TLS upstream with the default eager connection
    strategy completes the real upstream handshake (against an independent stdlib-ssl server) before the client's
    TLS context is built; then the client handshake is completed.  Everything above the sockets is real."""
    mode, up_alpn, http2, offers = case["mode"], case["upstream_alpn"], case["http2"], case["offers"]
    e = env()
    e["tctx"].options.http2 = http2
    client = connection.Client(peername=("192.0.2.1", 1234), sockname=("192.0.2.2", 8080), timestamp_start=0,
                               state=connection.ConnectionState.OPEN, proxy_mode=ProxyMode.parse(mode))
    ctx = mcontext.Context(client, e["tctx"].options)
    top = modes.ReverseProxy(ctx)
    cl, cinc, cout = std_client(offers, sni="up.example")
    up, uinc, uout = upstream_peer(up_alpn)
    seen = {"upstream_first": None, "server_alpn_at_client_start": "no tls_start_client hook", "established": False, "failed": None}

    def feed(ev):
        pending = [ev]
        while pending:
            x = pending.pop(0)
            for c in top.handle_event(x):
                if isinstance(c, mcommands.OpenConnection):
                    # what server.py's open_connection does on success
                    c.connection.timestamp_start = 1.0
                    c.connection.timestamp_tcp_setup = 1.0
                    c.connection.state = connection.ConnectionState.OPEN
                    pending.append(mevents.OpenConnectionCompleted(c, None))
                elif isinstance(c, mlayer.NextLayerHook):
                    e["nl"].next_layer(c.data)
                    pending.append(mevents.HookCompleted(c, None))
                elif isinstance(c, ptls.TlsClienthelloHook):
                    e["tc"].tls_clienthello(c.data)
                    pending.append(mevents.HookCompleted(c, None))
                elif isinstance(c, ptls.TlsStartServerHook):
                    e["tc"].tls_start_server(c.data)
                    pending.append(mevents.HookCompleted(c, None))
                elif isinstance(c, ptls.TlsStartClientHook):
                    seen["upstream_first"] = bool(ctx.server.tls_established)
                    seen["server_alpn_at_client_start"] = ctx.server.alpn
                    e["tc"].tls_start_client(c.data)
                    pending.append(mevents.HookCompleted(c, None))
                elif isinstance(c, ptls.TlsEstablishedClientHook):
                    seen["established"] = True
                    pending.append(mevents.HookCompleted(c, None))
                elif isinstance(c, (ptls.TlsFailedClientHook, ptls.TlsFailedServerHook)):
                    seen["failed"] = c.data.conn.error
                    pending.append(mevents.HookCompleted(c, None))
                elif isinstance(c, mcommands.StartHook):
                    pending.append(mevents.HookCompleted(c, None))
                elif isinstance(c, mcommands.SendData):
                    (cinc if c.connection is client else uinc).write(c.data)

    f0 = {"via": "server-first", "mode": mode.split(":")[1], "http2": http2, "upstream": "none-negotiated" if not up_alpn else "alpn-capable"}
    cdone = udone = False
    try:
        feed(mevents.Start())
        for _ in range(40):
            progress = False
            if not udone:
                try:
                    up.do_handshake()
                    udone = True
                except ssl.SSLWantReadError:
                    pass
            data = uout.read()
            if data:
                progress = True
                feed(mevents.DataReceived(ctx.server, data))
            if not cdone:
                cdone, data = client_step(cl, cout)
                if data:
                    progress = True
                    feed(mevents.DataReceived(client, data))
            if (cdone and udone and seen["established"]) or not (progress or (not udone and uinc.pending) or (not cdone and cinc.pending)):
                break
    except KeyboardInterrupt:
        raise
    except BaseException as ex:
        t.bad("stack_handshake_completes", f0, case, "completed handshakes", repr(ex))
        return
    if not t.judge("stack_handshake_completes", cdone and udone and seen["established"] and not seen["failed"], f0, case, "completed handshakes",
                   {**seen, "client_done": cdone, "upstream_done": udone}):
        return
    usel = up.selected_alpn_protocol()
    usel = usel.encode() if usel is not None else None
    sel = cl.selected_alpn_protocol()
    sel = sel.encode() if sel is not None else None
    if verbose:
        print("  %s http2=%r upstream server ALPN=%r client offers=%r: upstream negotiated %r (server.alpn=%r when the client context was built, upstream first=%r) -> client negotiated %r" % (
            mode, http2, up_alpn, offers, usel, seen["server_alpn_at_client_start"], seen["upstream_first"], sel))
    if not seen["upstream_first"]:
        # not the situation this part is about; nothing is known about upstream when the client is answered
        t.note("server-first case in which the upstream handshake was not completed first")
        judge_selection(t, "server-first", offers, None, http2, None, sel, case, {"mode": f0["mode"]})
        return
    # what the independent upstream server says was negotiated is the known upstream protocol
    judge_selection(t, "server-first", offers, usel if usel is not None else b"", http2, None, sel, case, {"mode": f0["mode"]})
    t.outcome(["server-first", f0["mode"], http2, ucls(usel if usel is not None else b""), pcls(sel)])


# what the client negotiates on the *outer* (client <-> proxy) connection of a secure web proxy before it sends CONNECT.
# (an outer h2 would need CONNECT over HTTP/2, which mitmproxy does not offer to proxy clients; see stack_case)
INNER_OUTER_OFFERS = [[], [H11]]
INNER_OFFERS = [[], [H2, H11], [H11, H2], [H11], [H2]]


def inner_run(outer_offers, http2, offers, up_alpn):
    """secure web proxy, TLS over TLS: outer handshake, CONNECT up.example:443, then the inner ClientHello; the real
    stack (HttpProxy / ClientTLSLayer / HttpLayer / ... / ServerTLSLayer / ClientTLSLayer) is built by the real NextLayer
    addon, upstream is an independent stdlib-ssl server.  -> dict of observations"""
    e = env()
    e["tctx"].options.http2 = http2
    client = connection.Client(peername=("192.0.2.1", 1234), sockname=("192.0.2.2", 8080), timestamp_start=0,
                               state=connection.ConnectionState.OPEN, proxy_mode=ProxyMode.parse("regular"))
    ctx = mcontext.Context(client, e["tctx"].options)
    top = modes.HttpProxy(ctx)
    ocl, oinc, oout = std_client(outer_offers, sni="proxy.example")
    icl, iinc, iout = std_client(offers, sni="up.example")
    up, uinc, uout = upstream_peer(up_alpn)
    seen = {"client_tls_starts": 0, "client_tls_established": 0, "failed": None, "inner_override": "no inner tls_start_client hook",
            "upstream_first": None, "server": None}

    def feed(ev):
        pending = [ev]
        while pending:
            x = pending.pop(0)
            for c in top.handle_event(x):
                if isinstance(c, mcommands.OpenConnection):
                    seen["server"] = c.connection
                    c.connection.timestamp_start = 1.0
                    c.connection.timestamp_tcp_setup = 1.0
                    c.connection.state = connection.ConnectionState.OPEN
                    pending.append(mevents.OpenConnectionCompleted(c, None))
                elif isinstance(c, mlayer.NextLayerHook):
                    e["nl"].next_layer(c.data)
                    pending.append(mevents.HookCompleted(c, None))
                elif isinstance(c, ptls.TlsClienthelloHook):
                    e["tc"].tls_clienthello(c.data)
                    pending.append(mevents.HookCompleted(c, None))
                elif isinstance(c, ptls.TlsStartServerHook):
                    e["tc"].tls_start_server(c.data)
                    pending.append(mevents.HookCompleted(c, None))
                elif isinstance(c, ptls.TlsStartClientHook):
                    seen["client_tls_starts"] += 1
                    e["tc"].tls_start_client(c.data)
                    if seen["client_tls_starts"] == 2:
                        seen["inner_override"] = c.data.ssl_conn.get_app_data()["client_alpn"]
                        seen["upstream_first"] = bool(c.data.context.server.tls_established)
                    pending.append(mevents.HookCompleted(c, None))
                elif isinstance(c, ptls.TlsEstablishedClientHook):
                    seen["client_tls_established"] += 1
                    pending.append(mevents.HookCompleted(c, None))
                elif isinstance(c, (ptls.TlsFailedClientHook, ptls.TlsFailedServerHook)):
                    seen["failed"] = c.data.conn.error
                    pending.append(mevents.HookCompleted(c, None))
                elif isinstance(c, mcommands.StartHook):
                    pending.append(mevents.HookCompleted(c, None))
                elif isinstance(c, mcommands.SendData):
                    (oinc if c.connection is client else uinc).write(c.data)

    def outer_plain():
        """decrypt what the proxy sent on the outer connection"""
        out = b""
        while True:
            try:
                d = ocl.read(65536)
            except ssl.SSLWantReadError:
                return out
            if not d:
                return out
            out += d

    def outer_send(plain):
        ocl.write(plain)
        feed(mevents.DataReceived(client, oout.read()))

    # 1. outer handshake
    feed(mevents.Start())
    odone = False
    for _ in range(20):
        odone, data = client_step(ocl, oout)
        if data:
            feed(mevents.DataReceived(client, data))
        if odone and seen["client_tls_established"] >= 1:
            break
    if not (odone and seen["client_tls_established"] == 1):
        return {**seen, "stage": "outer handshake did not complete"}
    outer_sel = ocl.selected_alpn_protocol()
    # 2. CONNECT
    outer_plain()
    outer_send(b"CONNECT up.example:443 HTTP/1.1\r\nHost: up.example:443\r\n\r\n")
    resp = outer_plain()
    if not resp.startswith(b"HTTP/1.1 200"):
        return {**seen, "stage": "CONNECT was not answered with 200: %r" % resp[:60]}
    # 3. inner handshake (and, driven by the proxy, the upstream handshake)
    idone = udone = False
    for _ in range(60):
        progress = False
        if not udone:
            try:
                up.do_handshake()
                udone = True
            except ssl.SSLWantReadError:
                pass
        data = uout.read()
        if data and seen["server"] is not None:
            progress = True
            feed(mevents.DataReceived(seen["server"], data))
        got = outer_plain()
        if got:
            progress = True
            iinc.write(got)
        if not idone:
            idone, data = client_step(icl, iout)
            if data:
                progress = True
                outer_send(data)
        if (idone and udone and seen["client_tls_established"] == 2) or not (progress or (not udone and uinc.pending) or oinc.pending):
            break
    usel = up.selected_alpn_protocol() if udone else None
    isel = icl.selected_alpn_protocol() if idone else None
    return {**seen, "server": None, "stage": "done" if (idone and udone and seen["client_tls_established"] == 2 and not seen["failed"]) else "inner handshake did not complete",
            "outer_selected": outer_sel, "upstream_selected": usel.encode() if usel else None, "inner_selected": isel.encode() if isel else None}


def inner_case(case, t: Tally, verbose=False):
    """the inner connection of a secure web proxy follows the property's rules on its own: for every outer ALPN result
    the inner selection is judged against the inner offers and the really negotiated upstream protocol, and it must
    not depend on the outer result"""
    http2, offers, up_alpn = case["http2"], case["offers"], case["upstream_alpn"]
    f0 = {"via": "inner-tls-over-tls", "http2": http2, "upstream": "none-negotiated" if not up_alpn else "alpn-capable"}
    sels = []
    for outer in INNER_OUTER_OFFERS:
        try:
            r = inner_run(outer, http2, offers, up_alpn)
        except KeyboardInterrupt:
            raise
        except BaseException as ex:
            t.bad("stack_handshake_completes", f0, case, "outer handshake, CONNECT, inner handshake complete", repr(ex))
            return
        if verbose:
            print("  outer offers=%r -> %r" % (outer, r))
        if not t.judge("stack_handshake_completes", r["stage"] == "done", f0, case, "outer handshake, CONNECT, inner handshake complete", r):
            return
        usel, isel = r["upstream_selected"], r["inner_selected"]
        upstream = (usel if usel is not None else b"") if r["upstream_first"] else None
        judge_selection(t, "inner-tls-over-tls", offers, upstream, http2, None, isel, case, {"outer": pcls(r["outer_selected"].encode() if r["outer_selected"] else None)})
        sels.append(isel)
        t.outcome(["inner", http2, ucls(upstream), pcls(isel)])
    t.judge("inner_selection_independent_of_outer", len(set(sels)) == 1, {**f0, "selected": "/".join(pcls(x) for x in sels)}, case, "the same protocol for every outer ALPN result", sels)


def hs_chunk(cases):
    t = Tally()
    for c in cases:
        if c["part"] == "handshake":
            hs_case(c, t)
        elif c["part"] == "serverfirst":
            serverfirst_case(c, t)
        elif c["part"] == "inner":
            inner_case(c, t)
        else:
            stack_case(c, t)
        t.case(c if c["offers"] == [H2, H11] and c["http2"] else None, nontrivial=bool(c["offers"]), key=c)
    return t


def run(ctx):
    maxlen = ctx.pick(3, 4)
    cases = []
    for offers in offer_lists(maxlen):
        for up in UPSTREAMS:
            for http2 in (True, False):
                for ov in OVERRIDES:
                    cases.append({"part": "callback", "offers": offers, "upstream": up, "http2": http2, "override": ov})
    hs = []
    for cfg in LAYER_CONFIGS:
        for up in HS_UPSTREAMS:
            for http2 in (True, False):
                for offers in HS_OFFERS:
                    hs.append({"part": "handshake", "cfg": cfg, "upstream": up, "http2": http2, "offers": offers})
    for build in STACK_BUILDS:
        for mode in STACK_MODES:
            for http2 in (True, False):
                for offers in STACK_OFFERS:
                    hs.append({"part": "stack", "build": build, "mode": mode, "http2": http2, "offers": offers})
    for mode in SF_MODES:
        for up_alpn in SF_UPSTREAM_ALPN:
            for http2 in (True, False):
                for offers in SF_OFFERS:
                    hs.append({"part": "serverfirst", "mode": mode, "upstream_alpn": up_alpn, "http2": http2, "offers": offers})
    for up_alpn in SF_UPSTREAM_ALPN:
        for http2 in (True, False):
            for offers in INNER_OFFERS:
                hs.append({"part": "inner", "upstream_alpn": up_alpn, "http2": http2, "offers": offers})
    ctx.bounds = {"inner_tls_over_tls": {"outer_offers": [[o.decode() for o in x] for x in INNER_OUTER_OFFERS], "inner_offers": [[o.decode() for o in x] for x in INNER_OFFERS],
                                         "upstream_server_alpn": "as serverfirst", "mode": "regular (secure web proxy, CONNECT)"},
                  "serverfirst_modes": SF_MODES, "serverfirst_upstream_server_alpn": [None if a is None else [x.decode() for x in a] for a in SF_UPSTREAM_ALPN],
                  "serverfirst_offers": [[o.decode() for o in x] for x in SF_OFFERS],
                  "protocols": [p.decode() for p in PROTOS], "offer_list_maxlen": maxlen, "upstream": ["unknown(None)", "none negotiated(b'')"] + [p.decode() for p in PROTOS],
                  "http2": [True, False], "client_alpn_override": [None, "http/1.1"], "callback_cases": len(cases),
                  "handshake_configs": LAYER_CONFIGS, "handshake_upstreams": [ucls(u) for u in HS_UPSTREAMS], "handshake_offers": [[o.decode() for o in x] for x in HS_OFFERS],
                  "stack_modes": STACK_MODES, "stack_builds": STACK_BUILDS, "stack_offers": "every ordered list of <= 2 of the 6 protocols (%d lists)" % len(STACK_OFFERS),
                  "handshakes": len(hs)}
    env()  # CA and addons once per process
    # measured: the whole callback product costs < 1 s of CPU and the handshakes ~5 s; starting a process pool costs
    # more than that on a busy machine, so everything runs in-process (same chunking, same merge order)
    par.pmap_tally(cb_chunk, cases, ctx.tally, nproc=1)
    ctx.log("callback product done: %d cases" % len(cases))
    par.pmap_tally(hs_chunk, hs, ctx.tally, nchunks=16, nproc=1)
    ctx.log("handshakes done: %d" % len(hs))
    ctx.tally.add("callback_cases", len(cases))
    ctx.tally.add("real_handshakes", len(hs))


def replay(case, t: Tally, verbose=False):
    if case["part"] == "callback":
        cb_case(case, t, verbose=True)
    elif case["part"] == "handshake":
        hs_case(case, t, verbose=True)
    elif case["part"] == "serverfirst":
        serverfirst_case(case, t, verbose=True)
    elif case["part"] == "inner":
        inner_case(case, t, verbose=True)
    else:
        stack_case(case, t, verbose=True)
