"""Engine V: a virtual asyncio event loop (no selector, virtual clock).

The environment (the explorer) owns every source of nondeterminism: which future
resolves next, when the clock moves, what a read returns.  Stock asyncio Task /
Future / Event / Lock / Semaphore / sleep / wait work unmodified on it.
"""
from __future__ import annotations

import asyncio
import heapq
from asyncio import events as _aevents


class VLoop(asyncio.BaseEventLoop):
    _inside = 0
    _eager = False

    def __init__(self, eager=True):
        super().__init__()
        self._vtime = 1000.0
        self._inside = 0  # >0 while callbacks / environment actions execute
        self._eager = eager
        self.exc_log: list = []
        self.set_exception_handler(self._on_exc)
        if eager:
            # production runs with the eager task factory (Master.run)
            self.set_task_factory(asyncio.eager_task_factory)

    # -- BaseEventLoop plumbing ------------------------------------------------
    def time(self):
        return self._vtime

    def is_running(self):
        # Task.__init__ only starts a task eagerly when the loop reports itself running; without this the
        # eager task factory (which production uses, see Master.run) would silently be deferred.
        return self._eager and self._inside > 0

    def _process_events(self, event_list):
        pass

    def _write_to_self(self):
        pass

    def _on_exc(self, loop, context):
        self.exc_log.append({k: repr(v) for k, v in context.items()})

    # -- stepping --------------------------------------------------------------
    def _due(self):
        while self._scheduled and self._scheduled[0]._cancelled:
            h = heapq.heappop(self._scheduled)
            h._scheduled = False
        return bool(self._scheduled) and self._scheduled[0]._when <= self._vtime

    def step(self):
        """run one batch of ready callbacks (one `_run_once` iteration without I/O)"""
        while self._due():
            h = heapq.heappop(self._scheduled)
            h._scheduled = False
            self._ready.append(h)
        n = len(self._ready)
        for _ in range(n):
            h = self._ready.popleft()
            if not h._cancelled:
                h._run()
        return n

    def quiesce(self, limit=100000):
        """run until nothing is ready at the current virtual time"""
        k = 0
        prev = _aevents._get_running_loop()
        _aevents._set_running_loop(self)
        self._inside += 1
        try:
            while self._ready or self._due():
                self.step()
                k += 1
                if k > limit:
                    raise RuntimeError("virtual loop does not quiesce (livelock)")
        finally:
            self._inside -= 1
            _aevents._set_running_loop(prev)
        return k

    def call_in_loop(self, fn, *a):
        """run fn as if from inside the loop (needed for eager task creation)"""
        prev = _aevents._get_running_loop()
        _aevents._set_running_loop(self)
        self._inside += 1
        try:
            return fn(*a)
        finally:
            self._inside -= 1
            _aevents._set_running_loop(prev)

    def next_timer(self):
        while self._scheduled and self._scheduled[0]._cancelled:
            h = heapq.heappop(self._scheduled)
            h._scheduled = False
        return self._scheduled[0]._when if self._scheduled else None

    def advance_to_next_timer(self, eps=0.0):
        t = self.next_timer()
        if t is None:
            return False
        self._vtime = max(self._vtime, t) + eps
        return True

    def advance(self, dt):
        self._vtime += dt

    def pending_tasks(self):
        return [t for t in asyncio.all_tasks(self) if not t.done()]

    def shutdown(self):
        """cancel what is left and close; used after an execution has been judged"""
        for t in self.pending_tasks():
            t.cancel()
        try:
            self.quiesce()
        except Exception:
            pass
        self._ready.clear()
        self._scheduled.clear()
        if not self.is_closed():
            self.close()
