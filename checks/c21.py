"""C21 - SOCKS5 handshakes are parsed exactly and subsequent data is relayed.

Engine E with a differential segmentation oracle, on the real stack: a mock client
sends greeting [+ RFC 1929 sub-negotiation] + request + payload, built from a token
grammar (valid and malformed fields), through the real ProxyConnectionHandler in
mode `socks5` (real `Socks5Proxy`, real `ProxyAuth.socks5_auth` when `proxyauth` is
set).  The layer after the handshake is pinned to the real `TCPLayer` (an addon
answering `next_layer`), so "what the next layer received" is what reaches the mock
upstream socket.  Every stream is delivered whole and in every segmentation of the
bound; each run is judged against the independent RFC 1928/1929 reader `socks5ref`
and against the whole-stream run of the same case.
"""
from __future__ import annotations

import itertools

from mitmproxy.addons.proxyauth import ProxyAuth
from mitmproxy.proxy.layers import TCPLayer

from vmc import par
from vmc.drivers.stacks import world as World
from vmc.refs import socks5ref
from vmc.tally import Tally

META = {
    "level": "exploration",
    "technique": "bounded-exhaustive enumeration of a SOCKS5 handshake grammar x segmentations x connection strategies on the real Socks5Proxy behind the real ConnectionHandler (virtual loop); oracle = independent RFC 1928/1929 reader + differential against whole-stream delivery",
    "claim": "for every stream of the grammar and every segmentation within the bound, mitmproxy's replies, connect target, relayed bytes and close decision equal those of whole-stream delivery; RFC-well-formed handshakes connect to exactly the requested destination, get well-formed replies and have every later byte relayed once and in order; RFC-enumerated rejections get the right code and a close",
    "rule": "a case is (proxyauth config, connection strategy, greeting/auth/request/trailing tokens, cut set); distinct = distinct tuple; non-trivial = the stream is cut at least once or the handshake reached the request phase",
    "assumptions": [
        "the layer after the handshake is pinned to the real TCPLayer by an addon answering next_layer (protocol detection on the payload is C19's subject)",
        "hooks complete immediately; the upstream connect either succeeds/fails at once or (strategy eager_late) after all client segments were delivered",
        "malformed handshakes the RFCs say nothing about (wrong sub-negotiation version, RSV != 0, zero-length names, non-hostname domain bytes) are only required to be segmentation-invariant, crash-free and, if accepted, to relay a suffix of the stream",
        "for a failed eager connect any RFC 1928 connect-failure code (1,3,4,5,6) is accepted",
    ],
}

# ------------------------------------------------------------------ grammar
GREET = {
    "noauth": b"\x05\x01\x00",
    "userpass": b"\x05\x01\x02",
    "both": b"\x05\x02\x00\x02",
    "both_rev": b"\x05\x02\x02\x00",
    "three": b"\x05\x03\x01\x00\x02",
    "gss_only": b"\x05\x01\x01",
    "n0": b"\x05\x00",
    "n255": b"\x05\xff" + bytes([3] * 253) + b"\x00\x02",
    "v4": b"\x04\x01\x00\x50\xc0\x00\x02\x01\x00",
    "v0": b"\x00\x01\x00",
    "http": b"GET / HTTP/1.1\r\n\r\n",
}
AUTH = {
    "ok": b"\x01\x01u\x01p",
    "wrongpw": b"\x01\x01u\x01q",
    "wronguser": b"\x01\x01v\x01p",
    "colonpw": b"\x01\x01u\x03p:q",
    "ver5": b"\x05\x01u\x01p",
    "ulen0": b"\x01\x00\x01p",
    "plen0": b"\x01\x01u\x00",
    "long": b"\x01\xff" + b"u" * 255 + b"\xff" + b"p" * 255,
    # ULEN / PLEN count octets: multi-byte UTF-8 and octets that are no UTF-8 at all
    "utf8": b"\x01\x02\xc3\xbc\x03p\xc3\xa4",
    "utf8_long": b"\x01\x06\xe2\x82\xac\xe2\x82\xac\x04\xf0\x9f\x94\x91",
    "not_utf8": b"\x01\x01\xfc\x02p\xe4",
    "trunc": b"\x01\x01u\x01",
}


def req(ver=5, cmd=1, rsv=0, atyp=3, addr=b"\x0bexample.com", port=80):
    return bytes([ver, cmd, rsv, atyp]) + addr + bytes([port >> 8, port & 255])


V4 = bytes([192, 0, 2, 1])
V6 = bytes.fromhex("20010db8000000000000000000000001")
REQ = {"dom80": req()}
for _p in (0, 80, 65535):
    REQ["ipv4_%d" % _p] = req(atyp=1, addr=V4, port=_p)
    REQ["ipv6_%d" % _p] = req(atyp=4, addr=V6, port=_p)
    REQ["dom_%d" % _p] = req(port=_p)
REQ.update({
    "dom_len1": req(addr=b"\x01a", port=443),
    "dom_len255": req(addr=b"\xff" + b"a" * 255, port=443),
    "dom_len0": req(addr=b"\x00"),
    "dom_nonascii": req(addr=b"\x0fb\xc3\xbccher.example"),
    "dom_dotted": req(addr=b"\x071.2.3.4"),
    "dom_looks_like_req": req(addr=b"\x0a" + req(atyp=1, addr=V4, port=80)),
    "ipv4_zero": req(atyp=1, addr=bytes(4), port=1),
    "ipv4_ones": req(atyp=1, addr=b"\xff" * 4, port=1),
    "ipv6_zero": req(atyp=4, addr=bytes(16), port=1),
    "ipv6_mapped": req(atyp=4, addr=bytes(10) + b"\xff\xff" + bytes([1, 2, 3, 4]), port=1),
    "cmd_bind": req(cmd=2),
    "cmd_udp": req(cmd=3, atyp=1, addr=bytes(4), port=0),
    "cmd_0": req(cmd=0),
    "cmd_9": req(cmd=9),
    "ver4": req(ver=4),
    "rsv1": req(rsv=1),
    "atyp_9": req(atyp=9, addr=V4),
    "atyp_0": req(atyp=0, addr=V4),
    "atyp_2": req(atyp=2, addr=V4),
    "bind_atyp9": req(cmd=2, atyp=9, addr=V4),
    "trunc_last": req()[:-1],
    "trunc_4": req(atyp=1, addr=b""),
    "trunc_3": b"\x05\x01\x00",
    "none": b"",
})
TRAIL = {
    "none": b"",
    "X": b"X",
    "tls": b"\x16\x03\x01\x00\x05hello",
    "http": b"GET / HTTP/1.1\r\nHost: example.com\r\n\r\n",
    "greeting": b"\x05\x01\x00",
    "request": req(atyp=1, addr=bytes([10, 0, 0, 1]), port=8080),
}
CONFIGS = {"none": None, "single": "u:p", "any": "any"}
STRATEGIES = ["eager_ok", "lazy", "eager_fail", "eager_late"]
SRV = b"<from-server>"


def validator(cfg):
    if cfg == "single":
        return lambda u, p: u == b"u" and p == b"p"
    return lambda u, p: True


def specs(thorough):
    """(config, strategy, greeting, auth, request, trailing) tuples, simplest first"""
    out = []
    seen = set()

    def add(*s):
        if (s[4].startswith("trunc") or s[4] == "none") and s[5] != "none":
            return  # a truncated request is the end of the stream
        if s not in seen:
            seen.add(s)
            out.append(s)

    for cfg in CONFIGS:
        authed = cfg != "none"
        g0 = "userpass" if authed else "noauth"
        a0 = "ok" if authed else "-"
        strategies_all = STRATEGIES
        for st in strategies_all:
            few = st != "eager_ok" and not thorough
            # every greeting
            for g in GREET:
                for tr in ("none", "X"):
                    add(cfg, st, g, a0, "dom80", tr)
            # every sub-negotiation
            if authed:
                for a in AUTH:
                    for tr in ("none", "X"):
                        add(cfg, st, g0, a, "dom80", tr)
                    add(cfg, st, g0, a, "none", "none")  # the stream ends after the sub-negotiation
            # every request
            for r in REQ:
                if few and r not in ("dom80", "ipv4_80", "ipv6_80", "dom_len1", "cmd_bind", "atyp_9", "rsv1", "trunc_last", "dom_len0"):
                    continue
                for tr in ("none", "X", "tls"):
                    add(cfg, st, g0, a0, r, tr)
            # every payload
            for tr in TRAIL:
                for r in ("dom80", "ipv4_80", "ipv6_80"):
                    add(cfg, st, g0, a0, r, tr)
    return out


def build(spec):
    cfg, st, g, a, r, tr = spec
    parts = [GREET[g]]
    if a != "-":
        parts.append(AUTH[a])
    parts += [REQ[r], TRAIL[tr]]
    return b"".join(parts), parts


def cut_sets(stream, parts, mode, compositions=True):
    """segmentations as sorted tuples of cut offsets (0 < c < len); () is whole delivery"""
    n = len(stream)
    if n < 2:
        return [()]
    res = [()]
    seen = {()}

    def add(c):
        c = tuple(sorted(set(c)))
        if c and c not in seen:
            seen.add(c)
            res.append(c)

    allpos = list(range(1, n))
    # field boundaries and their neighbours
    b, acc = set(), 0
    for p in parts:
        acc += len(p)
        for d in ((-1, 0, 1) if mode == "quick" else (-2, -1, 0, 1, 2)):
            if 0 < acc + d < n:
                b.add(acc + d)
    for d in range(1, 4 if mode == "quick" else 8):
        if d < n:
            b.add(d)
    bpos = sorted(b)
    for c in allpos if n <= 64 else bpos:
        add((c,))
    add(allpos)  # 1-byte segments
    if mode == "quick":
        two = bpos if n <= 40 else bpos[:12]
        for c in itertools.combinations(two, 2):
            add(c)
    else:
        two = allpos if n <= 48 else bpos
        for c in itertools.combinations(two, 2):
            add(c)
        if n <= 14 and compositions:  # every composition
            for k in range(3, n):
                for c in itertools.combinations(allpos, k):
                    add(c)
        else:
            for c in itertools.combinations(bpos[:10], 3):
                add(c)
    return res


# ------------------------------------------------------------------ one run
def policy(name, data, world):
    if name == "next_layer":
        data.layer = TCPLayer(data.context)


def snap(name, data):
    if name == "socks5_auth":
        return [data.username, data.password, bool(data.valid)]
    if name == "tcp_message":
        m = data.messages[-1]
        return [bool(m.from_client), bytes(m.content)]
    return None


def execute(spec, cuts):
    cfg, st, g, a, r, tr = spec
    stream, _ = build(spec)
    opts = {"connection_strategy": "lazy" if st == "lazy" else "eager"}
    kw = {}
    if CONFIGS[cfg]:
        opts["proxyauth"] = CONFIGS[cfg]
        kw = dict(addons=[ProxyAuth()], master_key="c21-proxyauth")
    auto = {"eager_ok": True, "lazy": True, "eager_fail": False, "eager_late": None}[st]
    w = World(mode="socks5", opts=opts, policy=policy, snap=snap, auto_connect=auto, **kw)
    try:
        try:
            w.start()
            prev = 0
            for c in list(cuts) + [len(stream)]:
                if c > prev:
                    w.client_send(stream[prev:c])
                prev = c
            if auto is None:
                for e in w.pending_connects():
                    w.connect_ok(e)
            before_srv = len(w.client.w.data)
            for e in w.servers:
                if e.state == "open" and not w.client.w.closed:
                    w.server_send(e, SRV)
            obs = {
                "out": w.client.w.data,
                "closed": bool(w.client.w.closed),
                "connects": [[list(e.address), e.state] for e in w.servers],
                "srv": [e.w.data for e in w.servers if e.state == "open"],
                "hooks": [n for n, _ in w.hooks if n not in ("next_layer", "tcp_message")],
                "auth": [s for n, s in w.hooks if n == "socks5_auth"],
                "child": b"".join(s[1] for n, s in w.hooks if n == "tcp_message" and s[0]),
                "errors": list(w.errors),
            }
            finished = w.close_out()
            obs["errors"] = list(w.errors)
            obs["finished"] = finished
        except KeyboardInterrupt:
            raise
        except BaseException as e:  # an exception escaping mitmproxy's handler
            obs = {"crash": repr(e)[:200]}
    finally:
        w.dispose()
    return obs


def features(spec, cuts, stream):
    cfg, st, g, a, r, tr = spec
    n = len(cuts)
    seg = "whole" if n == 0 else "bytes" if n == len(stream) - 1 else "%dcut" % n if n <= 2 else "multi"
    return {"auth": cfg, "strategy": st, "g": g, "a": a, "r": r, "t": tr, "seg": seg}


def judge(spec, cuts, obs, whole, t: Tally):
    cfg, st, g, a, r, tr = spec
    stream, _ = build(spec)
    feats = features(spec, cuts, stream)
    case = {"spec": list(spec), "cuts": list(cuts)}
    ref = socks5ref.parse(stream, cfg != "none", validator(cfg))
    t.case(case if (len(cuts) == 2 and ref["verdict"] == "accept") else None,
           nontrivial=bool(cuts) or ref["phase"] in ("request", "relay"), key=[list(spec), list(cuts)])

    if "crash" in obs or obs["errors"] or not obs["finished"]:
        t.bad("rejects_or_connects", feats, case, "handshake handled without internal error, handler terminates",
              {k: obs.get(k) for k in ("crash", "errors", "finished")})
        return
    t.outcome([obs["out"][:16], obs["closed"], obs["connects"], [len(x) for x in obs["srv"]], ref["verdict"], ref["reason"]])

    # ---- differential: segmentation invariance
    if cuts:
        keys = ("out", "closed", "connects", "srv", "hooks", "auth", "child")
        diff = {k: [whole.get(k), obs.get(k)] for k in keys if whole.get(k) != obs.get(k)}
        t.judge("segmentation_invariant", not diff, feats, case, "same outcome as whole-stream delivery", diff)

    fail = st == "eager_fail"
    attempts = obs["connects"]
    opened = [c for c in attempts if c[1] == "open"]
    relayed = b"".join(obs["srv"])

    if ref["klass"] == "malformed":
        # the RFCs say nothing: if mitmproxy accepts, it must at least relay a suffix of the stream, once
        ok = (not opened) or (stream.endswith(relayed) and obs["child"] == relayed)
        t.judge("malformed_relays_consistently", ok, dict(feats, dev="+".join(ref["deviations"])), case,
                "bytes relayed form a suffix of the client stream", {"relayed": relayed[-40:], "child": obs["child"][-40:]})
        return

    if ref["verdict"] == "incomplete":
        t.judge("connects_exact_destination", not attempts, dict(feats, phase="incomplete:" + ref["phase"]), case,
                "no connection before the request is complete", attempts)
        ok, why, rest = socks5ref.match_replies(ref["replies"], obs["out"])
        t.judge("reply_well_formed", ok and rest == b"", dict(feats, phase="incomplete:" + ref["phase"]), case,
                "exactly the replies due so far: %s" % (ref["replies"],), {"why": why, "out": obs["out"]})
        return

    if ref["verdict"] == "reject":
        f2 = dict(feats, reason=ref["reason"])
        ok, why, rest = socks5ref.match_replies(ref["replies"], obs["out"])
        # after a failure message the client must close and reads nothing further: bytes that follow the
        # failure message (mitmproxy pads its 05 FF method rejection to ten bytes) are noted, not judged
        good = ok and obs["closed"] and not attempts
        if ok and rest:
            t.note("%s: failure message followed by %d more bytes before the close" % (ref["reason"], len(rest)))
        if ref["reason"] == "bad_version":
            # no reply is defined for a foreign protocol; it must not be served
            good = obs["closed"] and not attempts
        t.judge("rejects_with_right_code_and_closes", good, f2, case,
                {"replies": ref["replies"], "closed": True, "connects": []},
                {"why": why, "out": obs["out"], "closed": obs["closed"], "connects": attempts})
        return

    # ---- accept (RFC-well-formed handshake)
    dest = ref["dest"]
    exact = len(attempts) == 1 and socks5ref.same_host(dest, attempts[0][0])
    if st == "lazy" and ref["trailing"] == b"" :
        # lazy strategy: nothing to connect for until the client sends payload
        exact = len(attempts) == 0 or exact
    t.judge("connects_exact_destination", exact, feats, case, {"dest": dest}, attempts)
    ok, why, rest = socks5ref.match_replies(ref["replies"], obs["out"], connect_failed=fail)
    if fail:
        t.judge("rejects_with_right_code_and_closes", ok and rest == b"" and obs["closed"] and not opened,
                dict(feats, reason="connect_failed"), case, "connect-failure reply, then close",
                {"why": why, "out": obs["out"], "closed": obs["closed"]})
        return
    want_rest = SRV if opened else b""
    t.judge("reply_well_formed", ok and rest == want_rest and not obs["closed"], feats, case,
            {"replies": ref["replies"], "then": want_rest}, {"why": why, "out": obs["out"], "closed": obs["closed"]})
    t.judge("trailing_relayed_once_in_order", relayed == ref["trailing"] and obs["child"] == ref["trailing"], feats, case,
            ref["trailing"][-60:], {"to_server": relayed[-60:], "to_child": obs["child"][-60:]})
    if ref["creds"] is not None and obs["auth"] and _is_utf8(ref["creds"][0]) and _is_utf8(ref["creds"][1]):
        u, p, valid = obs["auth"][0]
        same = u.encode("utf-8", "surrogateescape") == ref["creds"][0] and p.encode("utf-8", "surrogateescape") == ref["creds"][1]
        t.judge("credentials_parsed_exactly", same and len(obs["auth"]) == 1, feats, case, ref["creds"], obs["auth"])


def _is_utf8(b):
    try:
        b.decode("utf-8")
        return True
    except UnicodeDecodeError:
        return False  # how such octets are shown to the socks5_auth hook is not part of the property


def run_item(item, t: Tally):
    spec, cutlist = item
    whole = execute(spec, ())
    for cuts in cutlist:
        obs = whole if not cuts else execute(spec, cuts)
        judge(spec, tuple(cuts), obs, whole, t)


def chunk_fn(chunk):
    t = Tally()
    for item in chunk:
        run_item(item, t)
    return t


def run(ctx):
    mode = "thorough" if ctx.thorough else "quick"
    sp = specs(ctx.thorough)
    items = []
    nseg = 0
    per = 48
    for s in sp:
        stream, parts = build(s)
        cs = cut_sets(stream, parts, mode, compositions=s[1] in ("eager_ok", "eager_late"))
        nseg += len(cs)
        # the whole-stream run is the first element of the first slice; later slices recompute it for the differential
        for i in range(0, len(cs), per):
            part = cs[i:i + per]
            items.append((s, part))
    ctx.bounds = {
        "configs": list(CONFIGS), "strategies": STRATEGIES, "greetings": list(GREET), "auth": list(AUTH), "requests": list(REQ),
        "trailing": list(TRAIL), "streams": len(sp), "segmentations": nseg,
        "cuts": "whole, every single cut, 1-byte segments, " + ("every pair of cuts (streams <= 48 bytes; field-boundary pairs beyond), triples of the first 10 boundary cuts, every composition of streams <= 14 bytes (strategies eager_ok and eager_late)" if ctx.thorough else "pairs of cuts at field boundaries +-2 and in the first 7 bytes"),
    }
    ctx.log("%d streams, %d runs, %d work items" % (len(sp), nseg, len(items)))
    par.pmap_tally(chunk_fn, items, ctx.tally, nchunks=min(len(items), 512))


def replay(case, t, verbose=False):
    spec = tuple(case["spec"])
    cuts = tuple(case["cuts"])
    whole = execute(spec, ())
    obs = whole if not cuts else execute(spec, cuts)
    if verbose:
        stream, _ = build(spec)
        print("stream", stream)
        print("reference", socks5ref.parse(stream, spec[0] != "none", validator(spec[0])))
        print("whole   ", whole)
        print("observed", obs)
    judge(spec, cuts, obs, whole, t)
