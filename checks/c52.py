"""C52 - server replay serves recorded responses only to matching requests, in order.

Engine X: BFS over histories of {request(q), toggle one matching option, toggle reuse, set
server_replay_extra, add a recording} on the real `ServerPlayback` addon in a
`taddons.context`, starting from a loaded set of recordings with colliding and
near-colliding keys.  A state is the action history (a fresh context + addon is built and
the history replayed for every expansion; options live in the context's master).

The reference model is a list of recordings in recording order, a set of consumed ones and a
key function written from the statement; it never looks at `_hash` or `flowmap` except to
count the recordings that are still held (the `reindex` clause and the "replay is active"
guard).
"""
from __future__ import annotations

from mitmproxy import http
from mitmproxy.addons import serverplayback
from mitmproxy.test import tflow
from mitmproxy.test import tutils

from vmc import explore
from vmc.drivers import addonctx
from vmc.tally import Tally

META = {
    "level": "model_checking",
    "technique": "explicit-state BFS over request / option-change / add-recording histories on the real ServerPlayback "
    "addon (taddons.context, history replay per state) against a list model with a key function written from the statement",
    "claim": "every history up to the depth bound over the stated recordings, requests and option toggles was executed on "
    "the real addon and each request judged against the model; the property is about histories and configurations of a "
    "small deterministic component, so bounded exhaustive exploration with state de-duplication decides it for the bound",
    "rule": "a case is one transition (state, action); non-trivial = a request that was served from a recording or handled "
    "as unmatched while replay was active, or an option change / add while recordings are held; distinct = distinct "
    "(options, held recordings, action, outcome)",
    "assumptions": [
        "requests carry no Host header, so 'host' is request.host (pretty_host falls back to it)",
        "query parameters and form fields are compared as ordered lists; re-orderings are not enumerated",
        "with server_replay_ignore_payload_params set and a form body the key holds the non-ignored form fields, otherwise "
        "the whole body; all bodies in the alphabet are urlencoded forms",
        "'replay is active' is taken to mean replay.server.count > 0 before the request; requests made while it is 0 are "
        "only required not to be served",
        "a recording served while reuse is on is not consumed; after reuse is switched off it may be served once more",
        "recordings without a response can never be served; whether they are dropped when skipped is not constrained",
        "the deprecated server_replay_kill_extra / server_replay_nopop aliases stay at their defaults",
        "a matching request must be served (k-th matching request gets the k-th recording): this reads 'served in "
        "recording order' as more than a pure safety statement",
    ],
}

addonctx.quiet_logging()

BASE = {"method": "POST", "scheme": "http", "host": "h1", "port": 80, "target": "/p?x=1", "body": "f=1&g=1", "h": "A"}

# recordings: name -> (difference from BASE, has response)
RECS = {
    "r0": ({}, True),
    "r1": ({}, True),                      # fully equal to r0
    "r2": ({"host": "h2"}, True),          # collides under ignore_host
    "r3": ({}, False),                     # equal key, no response
    "r4": ({"target": "/p?x=2"}, True),    # collides under ignore_params=[x]
    "r5": ({"body": "f=2&g=1"}, True),     # collides under ignore_payload_params=[f] and ignore_content
    "r6": ({"port": 81}, True),            # collides under ignore_port
    "r7": ({"h": "B"}, True),              # differs only under use_headers=[h]
    "r8": ({"target": "/p?x=3&x=1"}, True),  # repeated parameter name; the last value equals r0's, an earlier one is extra
    "r9": ({"target": "//a/p?x=1"}, True),   # path begins with two slashes (origin-form targets may: the path is //a/p)
}
REQS = {
    "q0": {},
    "q1": {"host": "h2"},
    "q2": {"target": "/p?x=2"},
    "q3": {"body": "f=2&g=1"},
    "q4": {"body": "f=1&g=2"},             # equal only under ignore_content
    "q5": {"port": 81},
    "q6": {"h": "B"},
    "q7": {"target": "/p"},                # no x at all: equal under ignore_params=[x]
    "q8": {"target": "/other?x=1"},        # never equal
    "q9": {"method": "PUT"},               # never equal
    "qa": {"target": "/p?x=2&x=1"},        # repeated name: equal to no recording unless x is ignored (differs from r8 in the earlier value)
    "qb": {"target": "/p?x=3&x=1"},        # equal to r8
    # odd but legal origin-form targets whose path differs from /p (never equal to a /p recording)
    "qc": {"target": "//a/p?x=1"},         # path //a/p (equal to r9 only)
    "qd": {"target": "/p;v=1?x=1"},        # path /p;v=1 - ";v=1" belongs to the path (RFC 3986 3.3)
    "qe": {"target": "//b/p?x=1"},         # path //b/p
    "qf": {"target": "/p;v=2?x=1"},        # path /p;v=2
    "qg": {"target": "/p/?x=1"},           # path /p/
}
TOGGLES = {
    "ignore_host": ("server_replay_ignore_host", False, True),
    "ignore_port": ("server_replay_ignore_port", False, True),
    "ignore_content": ("server_replay_ignore_content", False, True),
    "ignore_params": ("server_replay_ignore_params", [], ["x"]),
    "ignore_payload_params": ("server_replay_ignore_payload_params", [], ["f"]),
    "use_headers": ("server_replay_use_headers", [], ["h"]),
    "reuse": ("server_replay_reuse", False, True),
}
HASH_TOGGLES = ["ignore_host", "ignore_port", "ignore_content", "ignore_params", "ignore_payload_params", "use_headers"]
EXTRAS = ["forward", "kill", "204"]

# recording order interleaves the near-colliding recordings with the two fully equal ones
# (the response-less r3 is not last, so that a recording appended later competes with a servable older one)
INITIAL = ["r0", "r2", "r4", "r3", "r1"]
QUICK = {"initial": INITIAL, "addable": ["r5"], "requests": ["q0", "q1", "q2", "q3", "q4", "q5", "qa", "qc", "qd"]}  # (qe..qg: thorough; qd keeps the revert of the ;params fix detected)
QUICK_DEEP = {"initial": INITIAL, "addable": ["r5"], "requests": ["q0", "q1", "q3"], "extras": [],
              "toggles": ["ignore_host", "ignore_content", "ignore_payload_params", "reuse"]}
THOROUGH = {"initial": INITIAL, "addable": ["r5", "r6", "r7", "r8", "r9"],
            "requests": ["q0", "q1", "q2", "q3", "q4", "q5", "q6", "q7", "q8", "q9", "qa", "qb", "qc", "qd", "qe", "qf", "qg"]}


def target_kind(target):
    """coarse class of a request target (feature only)"""
    path = target.split("?", 1)[0]
    if path.startswith("//"):
        return "leading_double_slash"
    if ";" in path:
        return "semicolon_in_path"
    if path.endswith("/") and len(path) > 1:
        return "trailing_slash"
    return "plain"


def desc(diff):
    d = dict(BASE)
    d.update(diff)
    return d


def mkflow(d, fid, resp_marker=None):
    """a flow from the repository's builders (tutils.treq / tflow.tflow), like test_serverplayback.py"""
    req = tutils.treq(
        method=d["method"].encode(), scheme=d["scheme"].encode(), host=d["host"], port=d["port"],
        path=d["target"].encode(), content=d["body"].encode(),
        headers=http.Headers(((b"content-type", b"application/x-www-form-urlencoded"), (b"h", d["h"].encode()),
                              (b"content-length", str(len(d["body"])).encode()))),
    )
    f = tflow.tflow(req=req, resp=False)
    f.id = fid
    if resp_marker is not None:
        f.response = tutils.tresp(content=resp_marker)
    return f


_RECORDINGS = {}


def recordings():
    """the recorded flows are inputs: the addon only reads them (it serves `response.copy()`), so they are
    built once per process.  Option changes go through `options.update()`, the production path that
    `taddons.context.configure` wraps (the wrapper's rollback deep-copies every option on each call)."""
    if not _RECORDINGS:
        for name, (diff, has_resp) in RECS.items():
            _RECORDINGS[name] = mkflow(desc(diff), name, ("resp-" + name).encode() if has_resp else None)
    return _RECORDINGS


# -- reference key function (from the statement) ------------------------------------------------


def parse_pairs(s):
    return [tuple(kv.split("=", 1)) if "=" in kv else (kv, "") for kv in s.split("&") if kv]


def mkey(d, o):
    path, _, query = d["target"].partition("?")
    key = {
        "method": d["method"],
        "scheme": d["scheme"],
        "path": path,
        "query": [kv for kv in parse_pairs(query) if kv[0] not in o["ignore_params"]],
        "headers": [(h, d.get(h)) for h in o["use_headers"]],
    }
    if not o["ignore_host"]:
        key["host"] = d["host"]
    if not o["ignore_port"]:
        key["port"] = d["port"]
    if not o["ignore_content"]:
        if o["ignore_payload_params"]:
            key["form"] = [kv for kv in parse_pairs(d["body"]) if kv[0] not in o["ignore_payload_params"]]
        else:
            key["body"] = d["body"]
    return key


def key_difference(a, b):
    for k in ("method", "scheme", "path", "host", "port", "query", "body", "form", "headers"):
        if a.get(k) != b.get(k):
            return k
    return None


class Sys:
    def __init__(self):
        self.sp = None
        self.tctx = None
        self.opts = {k: v[1] for k, v in TOGGLES.items()}
        self.extra = "forward"
        self.recorded = []      # recording names in recording order
        self.consumed = set()   # served while reuse was off (model follows what was really served)
        self.tainted = set()    # "ri<rj": pairs that sat in different key groups during some re-index
        self.flows = {}
        self.step = None        # verdicts of the last transition


def held(sp):
    """recordings held by the addon, per flowmap list in dict order"""
    return [[f.id for f in lst] for lst in sp.flowmap.values()]


class Spec:
    def __init__(self, alpha):
        self.alpha = alpha

    def build(self):
        s = Sys()
        s.sp = serverplayback.ServerPlayback()
        s.tctx = addonctx.new_context(s.sp)
        addonctx.activate(s.tctx)
        s.tctx.configure(s.sp)
        s.flows = recordings()
        s.sp.load_flows([s.flows[n] for n in self.alpha["initial"]])
        s.recorded = list(self.alpha["initial"])
        return s

    def fingerprint(self, s):
        return [held(s.sp), sorted(s.opts.items()), s.extra, s.recorded, sorted(s.consumed), sorted(s.tainted),
                [str(getattr(s.tctx.options, TOGGLES[k][0])) for k in sorted(TOGGLES)], s.tctx.options.server_replay_extra]

    def actions(self, s):
        acts = [["request", q] for q in self.alpha["requests"]]
        acts += [["toggle", k] for k in TOGGLES if k in self.alpha.get("toggles", TOGGLES)]
        acts += [["extra", e] for e in self.alpha.get("extras", EXTRAS) if e != s.extra]
        acts += [["add", r] for r in self.alpha["addable"] if r not in s.recorded]
        return acts

    # -- transitions ------------------------------------------------------------------
    def apply(self, s, a):
        addonctx.activate(s.tctx)
        s.step = {"bad": [], "ok": [], "outcome": None, "nontrivial": False}
        op = a[0]
        if op == "request":
            self._request(s, a[1])
        elif op == "toggle":
            self._option(s, a[1])
        elif op == "extra":
            self._call(s, "unmatched_forward_kill_status_as_configured", {"op": "set_extra"},
                       lambda: s.tctx.options.update(server_replay_extra=a[1]))
            s.extra = a[1]
        elif op == "add":
            pre = sorted(x for l in held(s.sp) for x in l)
            self._call(s, "reindex_loses_and_duplicates_nothing", {"op": "add"},
                       lambda: s.sp.add_flows([s.flows[a[1]]]))
            s.recorded.append(a[1])
            post = sorted(x for l in held(s.sp) for x in l)
            self._judge(s, "reindex_loses_and_duplicates_nothing", post == sorted(pre + [a[1]]), {"op": "add"},
                        sorted(pre + [a[1]]), post)
            s.step["nontrivial"] = True

    def _call(self, s, clause, feats, fn):
        try:
            fn()
            return True
        except KeyboardInterrupt:
            raise
        except BaseException as e:
            s.step["bad"].append((clause, dict(feats, exception=type(e).__name__), None, "%s: %s" % (type(e).__name__, e)))
            return False

    def _judge(self, s, clause, cond, feats, exp=None, obs=None):
        if cond:
            s.step["ok"].append(clause)
        else:
            s.step["bad"].append((clause, feats, exp, obs))

    def _option(self, s, name):
        opt, off, on = TOGGLES[name]
        new = on if s.opts[name] == off else off
        pre = sorted(x for l in held(s.sp) for x in l)
        old_keys = {r: mkey(desc(RECS[r][0]), s.opts) for r in s.recorded}
        ok = self._call(s, "reindex_loses_and_duplicates_nothing", {"op": "toggle", "option": name},
                        lambda: s.tctx.options.update(**{opt: new}))
        s.opts[name] = new
        post = sorted(x for l in held(s.sp) for x in l)
        if ok:
            self._judge(s, "reindex_loses_and_duplicates_nothing", pre == post, {"op": "toggle", "option": name}, pre, post)
        if name in HASH_TOGGLES:
            live = [r for r in s.recorded if r not in s.consumed]
            for i, ri in enumerate(live):
                for rj in live[i + 1:]:
                    if old_keys[ri] != old_keys[rj]:
                        s.tainted.add(ri + "<" + rj)
        s.step["nontrivial"] = bool(pre)
        s.step["outcome"] = ["toggle", name, len(post)]

    def _request(self, s, q):
        d = desc(REQS[q])
        f = mkflow(d, "q", None)
        active = None
        try:
            active = s.sp.count() > 0
        except Exception:
            pass
        feats0 = {"op": "request", "reuse": s.opts["reuse"]}
        if not self._call(s, "served_only_on_equal_key", feats0, lambda: s.sp.request(f)):
            return
        # observation
        served = None
        if f.response is not None and f.response.content.startswith(b"resp-"):
            served = f.response.content[5:].decode()
        status = f.response.status_code if f.response is not None else None
        killed = f.error is not None
        obs = {"served": served, "status": status, "error": killed, "is_replay": f.is_replay, "held": held(s.sp)}
        # model
        qk = mkey(d, s.opts)
        live = [r for r in s.recorded if r not in s.consumed]
        cands = [r for r in live if RECS[r][1] and mkey(desc(RECS[r][0]), s.opts) == qk]
        expected = cands[0] if cands else None
        reuse = s.opts["reuse"]

        def pair_regrouped(x, e):
            if x is None or e is None or x not in s.recorded or e not in s.recorded:
                return False
            i, j = s.recorded.index(x), s.recorded.index(e)
            a, b = (x, e) if i < j else (e, x)
            return (a + "<" + b) in s.tainted

        if served is not None:
            known = served in RECS and served in s.recorded
            rk = mkey(desc(RECS[served][0]), s.opts) if known else None
            self._judge(s, "served_only_on_equal_key", known and rk == qk,
                        {"op": "request", "differs": key_difference(rk, qk) if known else "unknown_recording",
                         "request_target": target_kind(d["target"]),
                         "recording_target": target_kind(desc(RECS[served][0])["target"]) if known else "?"},
                        {"request_key": qk}, dict(obs, recording_key=rk))
        else:
            s.step["ok"].append("served_only_on_equal_key")
        order_clause = "reuse_first_every_time" if reuse else "no_reuse_each_once_in_recording_order"
        if served is not None and served in s.consumed:
            self._judge(s, order_clause, False, {"op": "request", "cause": "served_again_after_consumed", "reuse": reuse},
                        {"expected": expected}, obs)
        elif served != expected:
            if served is None:
                cause = "candidate_not_served"
            elif expected is None:
                cause = None  # reported by served_only_on_equal_key
            else:
                cause = "not_first_in_recording_order"
            if cause:
                self._judge(s, order_clause, False,
                            {"op": "request", "cause": cause, "reuse": reuse, "pair_regrouped": pair_regrouped(served, expected)},
                            {"expected": expected, "candidates": cands, "recording_order": s.recorded}, obs)
        else:
            s.step["ok"].append(order_clause)
        if expected is None and served is None:
            if active:
                if s.extra == "forward":
                    good = f.response is None and not killed and not f.is_replay
                elif s.extra == "kill":
                    good = killed and f.response is None
                else:
                    good = status == int(s.extra) and not killed
                self._judge(s, "unmatched_forward_kill_status_as_configured", good, {"op": "request", "extra": s.extra},
                            s.extra, obs)
            else:
                s.step["inactive"] = True
                self._judge(s, "unmatched_forward_kill_status_as_configured", f.response is None or not f.response.content,
                            {"op": "request", "extra": s.extra, "active": False}, "not served", obs)
        # the model follows what really happened
        if served is not None and not reuse and served in s.recorded:
            s.consumed.add(served)
        s.step["nontrivial"] = bool(active)
        s.step["outcome"] = ["request", served, status, killed, bool(f.is_replay)]

    # -- judging ----------------------------------------------------------------------
    def check(self, s, hist, t: Tally):
        st = s.step
        s.step = None
        if not hist or st is None:
            t.case(None, nontrivial=False)
            return
        for clause, feats, exp, obs in st["bad"]:
            t.bad(clause, feats, list(hist), exp, obs)
        for clause in st["ok"]:
            t.ok(clause)
        a = hist[-1]
        if st["outcome"] is not None:
            t.outcome(st["outcome"])
            if st["outcome"][0] == "request":
                if st["outcome"][1] is not None:
                    t.add("requests_served_from_recording")
                elif st.get("inactive"):
                    t.add("requests_while_replay_inactive")
                else:
                    t.add("requests_unmatched_while_active")
        key = [sorted(s.opts.items()), s.extra, held(s.sp), a, st["outcome"]]
        sample = None
        if st["nontrivial"] and len(hist) >= 3 and a[0] == "request" and st["outcome"][1] is not None and len(t.samples) < 3:
            sample = {"history": list(hist), "outcome": st["outcome"]}
        t.case(sample, nontrivial=st["nontrivial"], key=key)


def run(ctx):
    alpha = THOROUGH if ctx.thorough else QUICK
    # quick: the full alphabet to depth 4, and the operations of a "serve, serve, add, change a matching option, request"
    # history (no unmatched-handling options, three requests, four toggles) to depth 5; thorough: everything to depth 5
    scopes = [(alpha, 5)] if ctx.thorough else [(alpha, 4), (QUICK_DEEP, 5)]
    ctx.bounds = {
        "scopes": [{"depth": d, "requests": a["requests"], "addable": a["addable"],
                    "toggles": list(a.get("toggles", TOGGLES)), "extras": a.get("extras", EXTRAS)} for a, d in scopes],
        "base_request": BASE,
        "recordings_loaded": {r: {"diff": RECS[r][0], "response": RECS[r][1]} for r in alpha["initial"]},
        "recordings_addable": {r: {"diff": RECS[r][0], "response": RECS[r][1]} for r in alpha["addable"]},
        "requests": {q: REQS[q] for q in alpha["requests"]},
        "option_toggles": {k: [v[1], v[2]] for k, v in TOGGLES.items()},
        "server_replay_extra": EXTRAS,
    }
    for a, depth in scopes:
        states, capped = explore.bfs(Spec(a), depth, ctx.tally, log=ctx.log)
        ctx.log("bfs done (depth %d, %d requests): %d states" % (depth, len(a["requests"]), states))


def replay(case, t: Tally, verbose=False):
    spec = Spec(THOROUGH)
    s = spec.build()
    hist = []
    for a in case:
        spec.apply(s, a)
        hist.append(a)
        if verbose:
            print("  %-36s -> %s held=%s" % (a, s.step["outcome"], held(s.sp)))
        spec.check(s, hist, t)
