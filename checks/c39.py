"""C39 - stream saving writes each completed flow once and keeps open flows at shutdown.

Engine X: BFS over interleavings of the lifecycle hooks of up to three concurrent flows
(HTTP a, HTTP b, HTTP->WebSocket, TCP, UDP, DNS) with filter changes, stop and restart
(overwrite / append) at any point, on the real `Save` addon in a `taddons.context`,
writing to a scratch file under /dev/shm/vmc-<pid>/.  A state is the action history
(fresh context, addon, flows and file per expansion).

After every action the bytes appended to the stream file are read back with the real
`FlowReader` and compared with what a list model (written from the statement) expects
for that action; at shutdown the records are compared as sets (Save keeps its open flows
in a `set`).
"""
from __future__ import annotations

import datetime as _dt
import os
import shutil
import weakref

from mitmproxy import flow as mflow
from mitmproxy import io as mio
from mitmproxy.addons import save
from mitmproxy.test import tflow
from mitmproxy.test import tutils

from vmc import explore
from vmc.drivers import addonctx
from vmc.tally import Tally

META = {
    "level": "model_checking",
    "technique": "explicit-state BFS over hook interleavings of concurrent flows plus filter/stop/restart actions on the "
    "real Save addon (taddons.context, history replay per state); the stream file is re-read after every action and the "
    "appended records compared with a list model",
    "claim": "every interleaving up to the depth bound of the lifecycle hooks of at most three concurrent flows of every "
    "type, with filter changes and stop/restart anywhere, was executed on the real addon writing a real file; the property "
    "quantifies over histories of a small deterministic component, so bounded exhaustive exploration decides it for the bound",
    "rule": "a case is one transition (state, action); non-trivial = a completion hook or a stop while saving is active, or "
    "any action that appended records; distinct = distinct (state, action, appended records)",
    "assumptions": [
        "a flow is 'started' by the hook Save pairs with its completion (request, tcp_start, udp_start, dns_request); "
        "requestheaders-only flows are not modelled",
        "completion hooks: response|error for HTTP (error also for a failed WebSocket handshake), websocket_end after a 101 "
        "response, tcp/udp end|error, dns response|error; no hook arrives for a flow after its completion",
        "whether a flow matches is evaluated when the record is (or would be) written, with the filter in force then",
        "at stop, flows started in the current saving session and still open must be written once; other still-open flows "
        "may be written once (the statement allows records before completion 'when saving stops'); completed flows must not",
        "a flow already written at an earlier stop is written again when it completes in a later session (two sentences of "
        "the statement, no conflict); in overwrite mode the earlier record is gone with the truncated file",
        "save_stream_file is a strftime pattern and `datetime` inside addons.save is replaced by a checker-owned clock that "
        "moves only at the explorer's `tick` action (any point between two hooks); the oracle spans every file the pattern "
        "has expanded to: a completion record may land in any of them, exactly once; a file may shrink only if it is the "
        "current expansion and saving (re)starts in overwrite mode; rotation by *changing the option* to another path while "
        "saving is not explored",
        "the bytes before the previous end of each file are not re-read after every action (only at the end of each "
        "explored history); Save never seeks",
    ],
}

addonctx.quiet_logging()
addonctx.memoize_filter_parse()

# flow pool: name -> (kind, url path)
POOL = {"ha": ("http", "/a"), "hb": ("http", "/b"), "ws": ("ws", "/ws"), "tcp": ("tcp", None), "udp": ("udp", None),
        "dns": ("dns", None)}
MAX_CONCURRENT = 3

# filters and their meaning in the model (C42 owns the filter language; these are three fixed predicates)
FILTERS = [None, "~u /a | ~tcp", "~e"]


def model_match(fidx, kind, path, has_error):
    if fidx == 0:
        return True
    if fidx == 1:
        return kind == "tcp" or (kind in ("http", "ws") and path == "/a")
    return has_error


START = {"http": "request", "ws": "request", "tcp": "tcp_start", "udp": "udp_start", "dns": "dns_request"}
# stage -> [(hook, next stage)]
NEXT = {
    "http": {"open": [("response", "done"), ("error", "done")]},
    "ws": {"open": [("response", "upgraded"), ("error", "done")], "upgraded": [("websocket_end", "done")]},
    "tcp": {"open": [("tcp_end", "done"), ("tcp_error", "done")]},
    "udp": {"open": [("udp_end", "done"), ("udp_error", "done")]},
    "dns": {"open": [("dns_response", "done"), ("dns_error", "done")]},
}

SCRATCH = None
_COUNTER = [0]
MAX_TICKS = 2   # the most clock ticks any scope uses (=> at most 3 files per execution)

# save_stream_file is a strftime pattern (`...-%M.flows`); Save asks `datetime.today()` for the current expansion
# whenever it is about to write or is re-configured.  The checker owns that clock: it only moves when the explorer
# plays the `tick` action, i.e. the file name changes at environment-chosen points between hooks.
_NOW = [0]


class _Clock:
    """stands in for the `datetime` class inside mitmproxy.addons.save"""

    @staticmethod
    def today():
        return _dt.datetime(2020, 1, 1, 0, _NOW[0], 0)


save.datetime = _Clock  # type: ignore


def file_of(pattern, tick):
    return pattern.replace("%M", "%02d" % tick)


def scratch_dir():
    global SCRATCH
    if SCRATCH is None:
        SCRATCH = "/dev/shm/vmc-%d" % os.getpid()
        os.makedirs(SCRATCH, exist_ok=True)
    return SCRATCH


def _cleanup(sa, path):
    try:
        if sa.stream is not None:
            sa.stream.fo.close()
    except Exception:
        pass
    for t in range(MAX_TICKS + 1):
        try:
            os.unlink(file_of(path, t))
        except OSError:
            pass


def new_flow(name):
    kind, path = POOL[name]
    if kind == "http":
        f = tflow.tflow(req=tutils.treq(host="h", path=path.encode()))
    elif kind == "ws":
        f = tflow.tflow(req=tutils.treq(host="h", path=path.encode()))
        f.request.headers["upgrade"] = "websocket"
        f.request.headers["connection"] = "upgrade"
        f.request.headers["sec-websocket-version"] = "13"
    elif kind == "tcp":
        f = tflow.ttcpflow()
    elif kind == "udp":
        f = tflow.tudpflow()
    else:
        f = tflow.tdnsflow()
    f.id = name
    return f


class Sys:
    def __init__(self):
        self.sa = None
        self.tctx = None
        self.path = None           # strftime pattern; file_of(path, tick) are the files it expands to
        self.tick = 0              # the checker's clock
        self.off = {}              # tick -> bytes of that stream file already read back
        self.flows = {}            # name -> real flow object (created at its start hook)
        # model
        self.active = False
        self.fidx = 0
        self.stage = {}            # name -> open | upgraded | done   (absent = not started)
        self.resp = {}             # name -> bool
        self.err = {}              # name -> bool
        self.must = set()          # started in the current saving session, still open
        self.expected_file = {}    # tick -> model of that whole file: list of items, an item is a record or a set of records
        self.step = None


def desc_model(s, name):
    return [name, bool(s.resp.get(name)), bool(s.err.get(name))]


def desc_real(f):
    return [f.id, bool(getattr(f, "response", None)), bool(f.error)]


class Spec:
    def __init__(self, pool=None, max_concurrent=MAX_CONCURRENT, max_ticks=1):
        self.pool = list(pool or POOL)
        self.max_concurrent = max_concurrent
        self.max_ticks = min(max_ticks, MAX_TICKS)

    def build(self):
        s = Sys()
        s.sa = save.Save()
        s.tctx = addonctx.new_context(s.sa)
        addonctx.activate(s.tctx)
        _NOW[0] = 0
        _COUNTER[0] += 1
        s.path = os.path.join(scratch_dir(), "%d-%d-%%M.flows" % (os.getpid(), _COUNTER[0]))
        weakref.finalize(s, _cleanup, s.sa, s.path)
        return s

    def fingerprint(self, s):
        sa = s.sa
        open_tick = None
        if sa.current_path:
            open_tick = [t for t in range(MAX_TICKS + 1) if file_of(s.path, t) == sa.current_path] or [sa.current_path]
        return [
            s.active, s.fidx, sorted(s.stage.items()), sorted(s.resp.items()), sorted(s.err.items()), sorted(s.must),
            sorted(f.id for f in sa.active_flows), sa.stream is not None, sa.filt is not None,
            (s.tctx.options.save_stream_file or "").replace(s.path, "P"), s.tctx.options.save_stream_filter,
            s.tick, open_tick,
        ]

    def actions(self, s):
        acts = []
        started = len(s.stage)
        for name in self.pool:
            kind = POOL[name][0]
            st = s.stage.get(name)
            if st is None:
                if started < self.max_concurrent:
                    acts.append(["hook", name, START[kind]])
            else:
                for hook, _ in NEXT[kind].get(st, []):
                    acts.append(["hook", name, hook])
        for i in range(len(FILTERS)):
            if i != s.fidx:
                acts.append(["filter", i])
        if s.active:
            acts.append(["stop"])
        else:
            acts.append(["start", "overwrite"])
            acts.append(["start", "append"])
        if s.tick < self.max_ticks:
            acts.append(["tick"])
        return acts

    # -- observation ------------------------------------------------------------------
    def _read_new(self, s):
        """records appended to any of the produced files since the last look:
        ({tick: records}, [ticks of files that shrank], size of the file the pattern expands to right now)"""
        per_file = {}
        shrunk = []
        cur_size = 0
        for t in range(MAX_TICKS + 1):
            path = file_of(s.path, t)
            try:
                size = os.stat(path).st_size
            except FileNotFoundError:
                size = 0
            off = s.off.get(t, 0)
            if size < off:
                shrunk.append(t)
                off = 0
            recs = []
            if size > off:
                with open(path, "rb") as fo:
                    fo.seek(off)
                    try:
                        for f in mio.FlowReader(fo).stream():
                            recs.append(desc_real(f))
                    except Exception as e:  # what Save appended is not a sequence of flow records
                        recs.append(["<unreadable: %s>" % type(e).__name__, False, False])
            s.off[t] = size
            if recs:
                per_file[t] = recs
            if t == s.tick:
                cur_size = size
        return per_file, shrunk, cur_size

    # -- transitions ------------------------------------------------------------------
    def apply(self, s, a):
        addonctx.activate(s.tctx)
        s.step = st = {"bad": [], "ok": [], "new": None, "nontrivial": False}
        op = a[0]
        exc = None
        if op == "tick":
            s.tick += 1
        _NOW[0] = s.tick
        # Save still has the file of an earlier expansion open: its next write / re-configuration has to rotate
        rotation_due = s.sa.current_path is not None and s.sa.current_path != file_of(s.path, s.tick)
        try:
            if op == "hook":
                self._drive_hook(s, a[1], a[2])
            elif op == "filter":
                s.tctx.options.update(save_stream_filter=FILTERS[a[1]])
            elif op == "stop":
                s.tctx.options.update(save_stream_file=None)
            elif op == "start":
                s.tctx.options.update(save_stream_file=("+" if a[1] == "append" else "") + s.path)
        except KeyboardInterrupt:
            raise
        except BaseException as e:
            exc = "%s: %s" % (type(e).__name__, e)
        per_file, shrunk, size = self._read_new(s)
        recs = [r for t in sorted(per_file) for r in per_file[t]]
        overwrite_start = op == "start" and a[1] == "overwrite"
        # the only file that may shrink is the one the pattern expands to now, and only when saving (re)starts in overwrite mode
        truncated = [t for t in shrunk if not (overwrite_start and t == s.tick)]
        st["new"] = recs
        feats = {"op": a[2] if op == "hook" else op}
        if op == "hook":
            feats["kind"] = POOL[a[1]][0]
        if op == "start":
            feats["mode"] = a[1]
        feats["filter"] = s.fidx if op != "filter" else a[1]
        feats["active"] = s.active
        feats["rotation_due"] = rotation_due

        def bad(clause, cause, exp=None, **more):
            st["bad"].append((clause, dict(feats, cause=cause, **more), exp, {"appended": recs, "truncated": truncated}))

        if exc is not None:
            bad("one_record_per_completion_of_matching_flow", "exception", None, exception=exc.split(":")[0])
            st["bad"][-1] = st["bad"][-1][:3] + (exc,)
        names = [r[0] for r in recs]
        # what the whole file must look like from now on (checked by final()): whatever was appended stays, in place
        for t in shrunk:
            s.expected_file[t] = []
        if overwrite_start:
            s.expected_file[s.tick] = []
        for t, rs in per_file.items():
            if op == "stop":
                s.expected_file.setdefault(t, []).append(sorted(rs))
            else:
                s.expected_file.setdefault(t, []).extend(rs)
        if op == "tick":
            if recs:
                bad("nothing_before_completion_except_at_stop", "records_when_only_the_clock_moved", [])
            else:
                st["ok"].append("nothing_before_completion_except_at_stop")
            if truncated:
                bad("one_record_per_completion_of_matching_flow", "file_truncated", "files only grow")
            return

        if op == "start":
            if a[1] == "overwrite":
                if size != 0:
                    bad("nothing_before_completion_except_at_stop", "records_after_overwrite_start", [])
            else:
                if truncated:
                    bad("one_record_per_completion_of_matching_flow", "append_start_truncated_file", "file kept")
                if recs:
                    bad("nothing_before_completion_except_at_stop", "records_at_start", [])
            s.active = True
            s.must = set()
            if not st["bad"]:
                st["ok"].append("nothing_before_completion_except_at_stop")
            return
        if truncated:
            bad("one_record_per_completion_of_matching_flow", "file_truncated", "file only grows")

        if op == "filter":
            s.fidx = a[1]
            if recs:
                bad("nothing_before_completion_except_at_stop", "records_at_filter_change", [])
            else:
                st["ok"].append("nothing_before_completion_except_at_stop")
            return

        if op == "stop":
            was_active = s.active
            open_flows = [n for n, stg in s.stage.items() if stg != "done"]

            def m(n):
                return model_match(s.fidx, POOL[n][0], POOL[n][1], s.err.get(n, False))

            must = sorted(n for n in s.must if m(n)) if was_active else []
            nbad = len(st["bad"])
            for n in sorted(set(names)):
                if names.count(n) > 1:
                    bad("open_flows_written_once_at_stop", "duplicate_at_stop", must, kind_written=POOL.get(n, ("?",))[0])
                if not was_active:
                    bad("nothing_before_completion_except_at_stop", "written_while_not_saving", [])
                elif n not in s.stage or s.stage[n] == "done":
                    bad("open_flows_written_once_at_stop", "completed_flow_written_at_stop", must,
                        kind_written=POOL.get(n, ("?",))[0])
                elif not m(n):
                    bad("non_matching_never_written", "non_matching_written_at_stop", must, kind_written=POOL[n][0])
            for n in must:
                if n not in names:
                    bad("open_flows_written_once_at_stop", "open_flow_missing_at_stop", must, kind_missing=POOL[n][0],
                        stage_missing=s.stage[n])
            for r in recs:
                if r[0] in s.stage and r != desc_model(s, r[0]):
                    bad("open_flows_written_once_at_stop", "record_state_differs", desc_model(s, r[0]))
            if len(st["bad"]) == nbad:
                st["ok"] += ["open_flows_written_once_at_stop", "non_matching_never_written"]
            s.active = False
            s.must = set()
            st["nontrivial"] = was_active
            return

        # hook
        name, hook = a[1], a[2]
        kind, path = POOL[name]
        if hook == START[kind] and name not in s.stage:
            s.stage[name] = "open"
            if s.active:
                s.must.add(name)
            completes = False
        else:
            nxt = dict(NEXT[kind][s.stage[name]])[hook]
            s.stage[name] = nxt
            completes = nxt == "done"
            if hook in ("response", "dns_response"):
                s.resp[name] = True
            if hook.endswith("error"):
                s.err[name] = True
        if not completes:
            if recs:
                bad("nothing_before_completion_except_at_stop", "records_before_completion", [])
            else:
                st["ok"].append("nothing_before_completion_except_at_stop")
            return
        s.must.discard(name)
        st["nontrivial"] = s.active
        matches = model_match(s.fidx, kind, path, s.err.get(name, False))
        others = [n for n in names if n != name]
        mine = [r for r in recs if r[0] == name]
        nbad = len(st["bad"])
        if others:
            for n in sorted(set(others)):
                stg = s.stage.get(n)
                bad("nothing_before_completion_except_at_stop", "other_flow_written_at_completion", [],
                    kind_written=POOL.get(n, ("?",))[0], stage_written=stg)
        if not s.active:
            if mine:
                bad("nothing_before_completion_except_at_stop", "written_while_not_saving", [])
        elif matches:
            if len(mine) != 1:
                bad("one_record_per_completion_of_matching_flow", "missing_record" if not mine else "duplicate_record",
                    [desc_model(s, name)])
            elif mine[0] != desc_model(s, name):
                bad("one_record_per_completion_of_matching_flow", "record_state_differs", [desc_model(s, name)])
        elif mine:
            bad("non_matching_never_written", "non_matching_written_at_completion", [])
        if len(st["bad"]) == nbad:
            st["ok"].append("one_record_per_completion_of_matching_flow" if (s.active and matches) else
                            "non_matching_never_written" if s.active else "nothing_before_completion_except_at_stop")

    def _drive_hook(self, s, name, hook):
        sa = s.sa
        kind = POOL[name][0]
        if name not in s.flows:
            s.flows[name] = new_flow(name)
        f = s.flows[name]
        # what the proxy layers do to the flow before they fire the hook
        if hook == "response":
            if kind == "ws":
                f.response = tutils.tresp(status_code=101)
                f.websocket = tflow.twebsocket()
            else:
                f.response = tutils.tresp()
        elif hook == "dns_response":
            f.response = tutils.tdnsresp()
        elif hook.endswith("error"):
            f.error = mflow.Error("connection lost")
        elif hook == "websocket_end":
            f.websocket.closed_by_client = True
            f.websocket.close_code = 1000
        getattr(sa, hook)(f)

    # -- judging ----------------------------------------------------------------------
    def check(self, s, hist, t: Tally):
        st = s.step
        s.step = None
        if not hist or st is None:
            t.case(None, nontrivial=False)
            return
        for clause, feats, exp, obs in st["bad"]:
            t.bad(clause, feats, list(hist), exp, obs)
        for clause in st["ok"]:
            t.ok(clause)
        a = hist[-1]
        new = st["new"] or []
        if new:
            t.add("actions_that_appended_records")
            t.add("records_appended", len(new))
        t.outcome([a[0] if a[0] != "hook" else a[2], sorted(new)])
        nontrivial = st["nontrivial"] or bool(new)
        sample = None
        if new and len(hist) >= 4 and len(t.samples) < 3:
            sample = {"history": list(hist), "appended_by_last_action": new}
        t.case(sample, nontrivial=nontrivial, key=[self.fingerprint(s), a, sorted(new)])

    def final(self, s, hist, t: Tally):
        """every produced file against the model of that whole file (records at a stop compare as a sorted group)"""
        ok = True
        want_all, got_all = {}, {}
        for tick in range(MAX_TICKS + 1):
            try:
                with open(file_of(s.path, tick), "rb") as fo:
                    try:
                        got = [desc_real(f) for f in mio.FlowReader(fo).stream()]
                    except Exception as e:
                        got = [["<unreadable: %s>" % type(e).__name__, False, False]]
            except FileNotFoundError:
                got = []
            i = 0
            for item in s.expected_file.get(tick, []):
                if item and isinstance(item[0], list):
                    grp = sorted(got[i:i + len(item)])
                    ok = ok and grp == item
                    i += len(item)
                elif item:
                    ok = ok and got[i:i + 1] == [item]
                    i += 1
            ok = ok and i == len(got)
            want_all[str(tick)] = s.expected_file.get(tick, [])
            got_all[str(tick)] = got
        t.judge("one_record_per_completion_of_matching_flow", ok, {"op": "final_file_content"}, list(hist), want_all, got_all)


def run(ctx):
    # (flows taken from the pool per history, depth); each flow lives once, so the state space is finite: when a
    # level adds no new state before the depth bound is reached, every history of any length has been covered
    # a scope is (flows per history, clock ticks per history, depth)
    scopes = ctx.pick([(3, 0, 7), (2, 1, 6)], [(3, 0, 14), (4, 0, 8), (3, 1, 9), (2, 2, 12)])
    ctx.bounds = {
        "scopes": [{"flows_per_history": n, "clock_ticks_per_history": k, "depth": d} for n, k, d in scopes],
        "save_stream_file": "<scratch>/<pid>-<n>-%M.flows (strftime pattern; `tick` moves the patched clock by one minute)",
        "flow_pool": {k: list(v) for k, v in POOL.items()},
        "lifecycles": {k: {st: [h for h, _ in v] for st, v in NEXT[k].items()} for k in NEXT},
        "filters": FILTERS,
        "control_actions": ["filter i", "stop", "start overwrite", "start append", "tick"],
    }
    try:
        for n, k, depth in scopes:
            t = Tally()
            states, capped = explore.bfs(Spec(max_concurrent=n, max_ticks=k), depth, t, log=ctx.log)
            saturated = t.max_depth < depth  # no history reached the bound: the frontier ran empty first
            if saturated:
                # the state graph is cyclic (filter/stop/start can repeat for ever), so there are no leaf histories;
                # count one validated history per distinct state instead
                t.executions += states
                t.note("scope with %d flows, %d ticks: frontier empty before depth %d, every reachable state expanded" % (n, k, depth))
            ctx.tally.merge(t)
            ctx.info["state_space_exhausted_with_%d_flows_%d_ticks" % (n, k)] = saturated
            ctx.log("bfs done (%d flows, %d clock ticks per history, depth %d): %d states%s" % (
                n, k, depth, states, " - no new states: the whole reachable state space was covered" if saturated else ""))
    finally:
        if SCRATCH:
            shutil.rmtree(SCRATCH, ignore_errors=True)


def replay(case, t: Tally, verbose=False):
    spec = Spec(max_ticks=MAX_TICKS)
    try:
        s = spec.build()
        hist = []
        for a in case:
            spec.apply(s, a)
            hist.append(a)
            if verbose:
                print("  %-32s appended=%s active_flows=%s" % (a, s.step["new"], sorted(f.id for f in s.sa.active_flows)))
            spec.check(s, hist, t)
        spec.final(s, hist, t)
        del s
    finally:
        if SCRATCH:
            shutil.rmtree(SCRATCH, ignore_errors=True)
